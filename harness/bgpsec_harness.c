/*
 * BGPsec harness (C11, C12).  Input: ndjson cases (abstract scenarios enumerated by spec/Bgpsec.tla and made
 * concrete by the check driver: AS numbers, pCount/flags, NLRI bits, ...).  For every case the harness creates
 * fresh P-256 keys with OpenSSL and
 *   "val": signs every hop with ITS OWN serialiser of the RFC 8205 section 4.2 digest (written from the RFC,
 *          independent of rtrlib's align_byte_sequence) + ECDSA_sign, fills the router-key table as the case says,
 *          applies the single-bit corruption / argument error, and calls rtr_bgpsec_validate_as_path.
 *   "gen": builds the path hop by hop with rtr_bgpsec_generate_signature, checks every produced segment
 *          (DER parse, independent digest + ECDSA_verify under the public key) and validates the finished path.
 * Output: one ndjson event per call for spec/BgpsecTrace.tla.
 */
#include "rtrlib/bgpsec/bgpsec_private.h"
#include "rtrlib/spki/hashtable/ht-spkitable_private.h"
#include "vh.h"

#include <openssl/ec.h>
#include <openssl/ecdsa.h>
#include <openssl/obj_mac.h>
#include <openssl/sha.h>
#include <openssl/x509.h>

#define MAXH 8
struct hop {
	uint8_t pcount, flags;
	uint32_t asn;
	uint8_t ski[SKI_SIZE];
	EC_KEY *key;
	uint8_t spki[SPKI_SIZE];
	uint8_t priv[200];
	int priv_len;
	uint8_t sig[80];
	unsigned int sig_len;
};
static struct hop hops[MAXH + 1]; /* 1..n, 1 = most recent signer */
/* steering of the key table during a validation (link-time wrap): at the vanish_at-th lookup the records with
 * vanish_ski are withdrawn first - the router key disappears between the library's two lookups for a hop */
static int lookup_no, vanish_at;
static uint8_t vanish_ski[SKI_SIZE];
static uint32_t vanish_asn;
static uint8_t vanish_spki[SPKI_SIZE];
int __real_spki_table_search_by_ski(struct spki_table *t, uint8_t *ski, struct spki_record **res, unsigned int *n);
int __wrap_spki_table_search_by_ski(struct spki_table *t, uint8_t *ski, struct spki_record **res, unsigned int *n)
{
	if (vanish_at && ++lookup_no == vanish_at) {
		struct spki_record r;

		memset(&r, 0, sizeof(r));
		r.asn = vanish_asn;
		memcpy(r.ski, vanish_ski, SKI_SIZE);
		memcpy(r.spki, vanish_spki, SPKI_SIZE);
		spki_table_remove_entry(t, &r);
	}
	return __real_spki_table_search_by_ski(t, ski, res, n);
}
static EC_KEY *wrong_key;
static uint8_t wrong_spki[SPKI_SIZE];
static uint8_t garbage_spki[SPKI_SIZE];
/* address families other than 1 and 2, incl. 16-bit values whose low octet is 1 or 2 */
static const uint16_t bad_afi[] = {0, 3, 9, 25, 255, 256, 257, 258, 512, 513, 514, 0x8001, 0x8002, 0xff01, 0xff02, 0xffff};

static EC_KEY *new_key(uint8_t *spki, uint8_t *priv, int *priv_len)
{
	EC_KEY *k = EC_KEY_new_by_curve_name(NID_X9_62_prime256v1);

	EC_KEY_generate_key(k);
	EC_KEY_set_asn1_flag(k, OPENSSL_EC_NAMED_CURVE);
	unsigned char *p = spki;
	int n = i2d_EC_PUBKEY(k, &p);

	if (n != SPKI_SIZE) {
		fprintf(stderr, "unexpected SPKI size %d\n", n);
		exit(2);
	}
	if (priv) {
		unsigned char *q = priv;

		*priv_len = i2d_ECPrivateKey(k, &q);
	}
	return k;
}
/* RFC 8205 section 4.2: the sequence of octets hashed for the signature of hop i (1 = most recent) */
static size_t rfc8205_digest_input(uint8_t *o, int n, int i, uint32_t first_target, uint8_t alg, uint16_t afi, uint8_t safi,
				   uint8_t nlri_len, const uint8_t *nlri)
{
	size_t k = 0;
	uint32_t target = i == 1 ? first_target : hops[i - 1].asn;

	o[k++] = target >> 24;
	o[k++] = target >> 16;
	o[k++] = target >> 8;
	o[k++] = target;
	/* RFC 8205 figure 8: [Signature Segment N-1][Secure_Path Segment N] ... [Signature Segment 1][Secure_Path Segment 2]
	 * [Secure_Path Segment 1]; with hop 1 = most recent that is, for j = i..n: the Signature Segment of the next
	 * older hop j+1 (if any), then Secure_Path Segment j. */
	for (int j = i; j <= n; j++) {
		if (j + 1 <= n) {
			memcpy(o + k, hops[j + 1].ski, SKI_SIZE);
			k += SKI_SIZE;
			o[k++] = hops[j + 1].sig_len >> 8;
			o[k++] = hops[j + 1].sig_len;
			memcpy(o + k, hops[j + 1].sig, hops[j + 1].sig_len);
			k += hops[j + 1].sig_len;
		}
		o[k++] = hops[j].pcount;
		o[k++] = hops[j].flags;
		o[k++] = hops[j].asn >> 24;
		o[k++] = hops[j].asn >> 16;
		o[k++] = hops[j].asn >> 8;
		o[k++] = hops[j].asn;
	}
	o[k++] = alg;
	o[k++] = afi >> 8;
	o[k++] = afi;
	o[k++] = safi;
	o[k++] = nlri_len;
	memcpy(o + k, nlri, (nlri_len + 7) / 8);
	k += (nlri_len + 7) / 8;
	return k;
}
static void add_key(struct spki_table *t, uint32_t asn, const uint8_t *ski, const uint8_t *spki)
{
	struct spki_record r;

	memset(&r, 0, sizeof(r));
	r.asn = asn;
	memcpy(r.ski, ski, SKI_SIZE);
	memcpy(r.spki, spki, SPKI_SIZE);
	spki_table_add_entry(t, &r);
}
static void fill_values(const struct vj *c, int n, uint8_t *nlri, uint8_t *nlri_len, uint16_t *afi)
{
	struct vj *as = vj_get(c, "asn"), *pc = vj_get(c, "pcount"), *fl = vj_get(c, "flags"), *nb = vj_get(c, "nlri");

	for (int i = 1; i <= n; i++) {
		hops[i].asn = (uint32_t)strtoul(as->items[i - 1]->str, NULL, 10);
		hops[i].pcount = pc->items[i - 1]->num;
		hops[i].flags = fl->items[i - 1]->num;
		for (int b = 0; b < SKI_SIZE; b++)
			hops[i].ski[b] = vh_r32();
		if (hops[i].key)
			EC_KEY_free(hops[i].key);
		hops[i].key = new_key(hops[i].spki, hops[i].priv, &hops[i].priv_len);
		hops[i].sig_len = 0;
	}
	*afi = vj_int(c, "afi", 1);
	*nlri_len = vj_int(c, "nlri_len", 24);
	memset(nlri, 0, 16);
	for (int i = 0; nb && i < nb->n && i < 16; i++)
		nlri[i] = nb->items[i]->num;
}
static struct rtr_bgpsec *mk_bgpsec(int n, uint32_t target, uint16_t afi, uint8_t nlri_len, const uint8_t *nlri, int upto_sig)
{
	struct rtr_bgpsec_nlri *nl = rtr_bgpsec_nlri_new((nlri_len + 7) / 8);

	nl->afi = afi;
	nl->safi = 1;
	nl->nlri_len = nlri_len;
	memcpy(nl->nlri, nlri, (nlri_len + 7) / 8);
	struct rtr_bgpsec *b = rtr_bgpsec_new(1, 1, afi, hops[1].asn, target, nl);

	(void)upto_sig;
	(void)n;
	return b;
}

int main(int argc, char **argv)
{
	if (argc != 3)
		return 2;
	FILE *f = fopen(argv[1], "r"), *out = fopen(argv[2], "w");
	char *lineb = NULL;
	size_t cap = 0;
	uint8_t buf[4096];

	vh_seed(4242);
	wrong_key = new_key(wrong_spki, NULL, NULL);
	memset(garbage_spki, 0x5a, sizeof(garbage_spki));
	while (getline(&lineb, &cap, f) > 0) {
		struct vj *c = vj_parse(lineb);
		const char *op = vj_str(c, "op", "val");
		int n = vj_int(c, "hops", 1);
		uint8_t nlri[16], nlri_len;
		uint16_t afi;
		uint32_t target = (uint32_t)strtoul(vj_str(c, "target", "65000"), NULL, 10);
		struct spki_table table;

		fill_values(c, n, nlri, &nlri_len, &afi);
		lookup_no = vanish_at = 0;
		spki_table_init(&table, NULL);
		if (!strcmp(op, "val")) {
			struct vj *kv = vj_get(c, "kv"), *cor = vj_get(c, "corrupt");
			const char *argerr = vj_str(c, "argerr", "none");
			const char *cf = vj_str(cor, "f", "none");
			int ch = vj_int(cor, "hop", 0);

			/* sign from the oldest hop to the most recent one with the independent serialiser */
			for (int i = n; i >= 1; i--) {
				uint8_t md[SHA256_DIGEST_LENGTH];
				size_t len = rfc8205_digest_input(buf, n, i, target, 1, afi, 1, nlri_len, nlri);

				SHA256(buf, len, md);
				ECDSA_sign(0, md, sizeof(md), hops[i].sig, &hops[i].sig_len, hops[i].key);
			}
			for (int i = 1; i <= n; i++) {
				const char *v = kv->items[i - 1]->str;

				if (!strcmp(v, "vanish")) {
					/* present when the keys are checked up front, withdrawn before the hop's own lookup; the hop's
					 * signature is damaged, so VALID is wrong whichever table one looks at */
					add_key(&table, hops[i].asn, hops[i].ski, hops[i].spki);
					vanish_at = n + i;
					vanish_asn = hops[i].asn;
					memcpy(vanish_ski, hops[i].ski, SKI_SIZE);
					memcpy(vanish_spki, hops[i].spki, SPKI_SIZE);
					hops[i].sig[hops[i].sig_len - 3] ^= 0x40;
				} else if (!strcmp(v, "right")) {
					add_key(&table, hops[i].asn, hops[i].ski, hops[i].spki);
				} else if (!strcmp(v, "two")) {
					add_key(&table, hops[i].asn, hops[i].ski, wrong_spki);
					add_key(&table, hops[i].asn, hops[i].ski, hops[i].spki);
				} else if (!strcmp(v, "garbagefirst")) {
					/* an entry that cannot be loaded as a public key, registered before the verifying key */
					add_key(&table, hops[i].asn, hops[i].ski, garbage_spki);
					add_key(&table, hops[i].asn, hops[i].ski, hops[i].spki);
				} else if (!strcmp(v, "garbage")) {
					add_key(&table, hops[i].asn, hops[i].ski, garbage_spki);
				} else if (!strcmp(v, "wrongkey")) {
					add_key(&table, hops[i].asn, hops[i].ski, wrong_spki);
				} else if (!strcmp(v, "otheras")) {
					add_key(&table, hops[i].asn ^ 0x10000u, hops[i].ski, hops[i].spki);
				}
			}
			/* single-bit corruption of one signed field, after signing */
			uint32_t tgt = target;
			uint8_t safi = 1;
			uint16_t afi2 = afi;
			int bit = vj_int(cor, "bit", 0);

			if (!strcmp(cf, "target"))
				tgt ^= 1u << (bit % 32);
			else if (!strcmp(cf, "pcount"))
				hops[ch].pcount ^= 1u << (bit % 8);
			else if (!strcmp(cf, "flags"))
				hops[ch].flags ^= 1u << (bit % 8);
			else if (!strcmp(cf, "asn"))
				hops[ch].asn ^= 1u << (bit % 32);
			else if (!strcmp(cf, "safi"))
				safi ^= 1u << (bit % 8);
			else if (!strcmp(cf, "afi12"))
				afi2 = afi == 1 ? 2 : 1;
			else if (!strcmp(cf, "nlri")) {
				if (nlri_len == 0)
					nlri_len = 1; /* nothing to flip in a zero-length prefix: lengthen it */
				else
					nlri[(bit % nlri_len) / 8] ^= 0x80 >> ((bit % nlri_len) % 8);
			} else if (!strcmp(cf, "nlrilen")) {
				int mask = 1 << (bit % 3), maxlen = afi == 1 ? 32 : 128;

				/* always a different, still legal length (a length beyond the family's maximum would be clamped below) */
				nlri_len = (int)(nlri_len ^ mask) > maxlen ? nlri_len - mask : nlri_len ^ mask;
			}
			else if (!strcmp(cf, "ski"))
				hops[ch].ski[bit % SKI_SIZE] ^= 1u << (bit % 8);
			else if (!strcmp(cf, "sigder")) {
				/* damage the DER framing: SEQUENCE tag / length, INTEGER tag, or cut the last octet */
				if (bit % 4 == 3)
					hops[ch].sig_len--;
				else
					hops[ch].sig[bit % 3 == 2 ? 2 : bit % 3] ^= 1u << (bit % 7);
			} else if (!strcmp(cf, "sig"))
				hops[ch].sig[8 + bit % (hops[ch].sig_len - 10)] ^= 1u << (bit % 8); /* inside the r / s values */
			if (afi2 == 1 && nlri_len > 32)
				nlri_len = 32;
			struct rtr_bgpsec *b = mk_bgpsec(n, tgt, afi2, nlri_len, nlri, 0);

			b->safi = safi;
			b->nlri->safi = safi;
			for (int i = 1; i <= n; i++) {
				rtr_bgpsec_append_sec_path_seg(b, rtr_bgpsec_new_secure_path_seg(hops[i].pcount, hops[i].flags, hops[i].asn));
				if (!(i == n && !strcmp(argerr, "count")))
					rtr_bgpsec_append_sig_seg(b, rtr_bgpsec_new_signature_seg(hops[i].ski, hops[i].sig_len, hops[i].sig));
			}
			if (!strcmp(argerr, "suite"))
				b->alg = 2 + bit % 200;
			if (!strcmp(argerr, "afi")) {
				b->nlri->afi = bad_afi[bit % (sizeof(bad_afi) / sizeof(bad_afi[0]))];
				b->afi = b->nlri->afi;
			}
			int rc = rtr_bgpsec_validate_as_path(b, &table);

			fprintf(out, "{\"e\":\"val\",\"rc\":%d,\"c\":{\"hops\":%d,\"kv\":[", rc, n);
			for (int i = 0; i < n; i++)
				fprintf(out, "%s\"%s\"", i ? "," : "", kv->items[i]->str);
			fprintf(out, "],\"corrupt\":{\"f\":\"%s\",\"hop\":%d},\"argerr\":\"%s\"},\"afi\":%d,\"nlri_len\":%d}\n", cf, ch, argerr, afi,
				vj_int(c, "nlri_len", 0) & 0xff);
			rtr_bgpsec_free(b);
		} else {
			/* gen: originate at hop n and forward up to hop 1 with the library's own signing function */
			const char *err = vj_str(c, "err", "none");
			int errhop = vj_int(c, "errhop", 1);
			struct rtr_bgpsec *b = NULL;
			bool chain_ok = true;
			static int bit0;

			bit0 += 5; /* successive cases walk through the list of unsupported address families */

			for (int i = n; i >= 1 && chain_ok; i--) {
				uint32_t tgt = i == 1 ? target : hops[i - 1].asn;

				/* the router with AS hops[i].asn holds segments i+1..n signed, prepends its own segment, signs for tgt */
				b = mk_bgpsec(n, tgt, afi, nlri_len, nlri, 0);
				if (bit0 % 2) {
					for (int j = i; j <= n; j++) {
						rtr_bgpsec_append_sec_path_seg(b, rtr_bgpsec_new_secure_path_seg(hops[j].pcount, hops[j].flags, hops[j].asn));
						if (j > i)
							rtr_bgpsec_append_sig_seg(b, rtr_bgpsec_new_signature_seg(hops[j].ski, hops[j].sig_len, hops[j].sig));
					}
				} else {
					/* as a router does it: the received segments oldest first, each put in front of the older ones, its own last */
					for (int j = n; j >= i; j--) {
						rtr_bgpsec_prepend_sec_path_seg(b, rtr_bgpsec_new_secure_path_seg(hops[j].pcount, hops[j].flags, hops[j].asn));
						if (j > i)
							rtr_bgpsec_prepend_sig_seg(b, rtr_bgpsec_new_signature_seg(hops[j].ski, hops[j].sig_len, hops[j].sig));
					}
				}
				bool inject = i == errhop || (errhop > n && i == n);
				uint8_t badkey[200];
				uint8_t *key = hops[i].priv;

				if (inject && !strcmp(err, "key")) {
					memcpy(badkey, hops[i].priv, sizeof(badkey));
					memset(badkey, 0x5a, 24);
					key = badkey;
				}
				if (inject && !strcmp(err, "suite"))
					b->alg = 7;
				if (inject && !strcmp(err, "afi")) {
					b->nlri->afi = bad_afi[(bit0 + i) % (sizeof(bad_afi) / sizeof(bad_afi[0]))];
					b->afi = b->nlri->afi;
				}
				if (inject && !strcmp(err, "count"))
					rtr_bgpsec_append_sec_path_seg(b, rtr_bgpsec_new_secure_path_seg(1, 0, 64512));
				struct rtr_signature_seg *ns = NULL;
				int rc = rtr_bgpsec_generate_signature(b, key, &ns);
				int der = 0, indep = 0, siglen = 0;

				if (rc == RTR_BGPSEC_SUCCESS && ns) {
					const unsigned char *p = ns->signature;
					ECDSA_SIG *sg = d2i_ECDSA_SIG(NULL, &p, ns->sig_len);
					uint8_t md[SHA256_DIGEST_LENGTH];
					size_t len;

					siglen = ns->sig_len;
					der = sg && p == ns->signature + ns->sig_len;
					if (sg)
						ECDSA_SIG_free(sg);
					memcpy(hops[i].sig, ns->signature, ns->sig_len < sizeof(hops[i].sig) ? ns->sig_len : sizeof(hops[i].sig));
					hops[i].sig_len = ns->sig_len;
					len = rfc8205_digest_input(buf, n, i, target, 1, afi, 1, nlri_len, nlri);
					SHA256(buf, len, md);
					indep = ECDSA_verify(0, md, sizeof(md), ns->signature, ns->sig_len, hops[i].key) == 1;
					rtr_bgpsec_free_signatures(ns);
				} else {
					chain_ok = false;
				}
				fprintf(out, "{\"e\":\"gen\",\"hop\":%d,\"hops\":%d,\"err\":\"%s\",\"rc\":%d,\"der\":%d,\"indep\":%d,\"siglen\":%d,\"afi\":%d,\"nlri_len\":%d}\n", i, n,
					inject ? err : "none", rc, der, indep, siglen, afi, nlri_len);
				rtr_bgpsec_free(b);
				b = NULL;
				if (inject && strcmp(err, "none"))
					chain_ok = false;
			}
			if (chain_ok) {
				/* the finished path as the next AS (target) receives it, validated by the library */
				for (int i = 1; i <= n; i++)
					add_key(&table, hops[i].asn, hops[i].ski, hops[i].spki);
				b = mk_bgpsec(n, target, afi, nlri_len, nlri, 0);
				for (int i = 1; i <= n; i++) {
					rtr_bgpsec_append_sec_path_seg(b, rtr_bgpsec_new_secure_path_seg(hops[i].pcount, hops[i].flags, hops[i].asn));
					rtr_bgpsec_append_sig_seg(b, rtr_bgpsec_new_signature_seg(hops[i].ski, hops[i].sig_len, hops[i].sig));
				}
				int rc = rtr_bgpsec_validate_as_path(b, &table);

				fprintf(out, "{\"e\":\"chain\",\"hops\":%d,\"rc\":%d}\n", n, rc);
				rtr_bgpsec_free(b);
			}
		}
		spki_table_free_without_notify(&table);
	}
	fclose(out);
	return 0;
}
