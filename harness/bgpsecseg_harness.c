/*
 * Segment-list helpers of rtrlib/bgpsec/bgpsec.c (prepend / append / pop of Secure_Path and Signature segments)
 * driven by random call sequences; after every call the whole object is logged (both lists walked through the
 * next pointers, both counters) for spec/BgpsecSegTrace.tla.     bgpsecseg_harness <seed> <calls> <out.ndjson>
 */
#include "rtrlib/bgpsec/bgpsec_private.h"
#include "vh.h"

static FILE *out;
static void dump(const struct rtr_bgpsec *b, const char *op, int x, const char *kind, const char *rk, int rv)
{
	int guard = 0;

	fprintf(out, "{\"op\":\"%s\",\"x\":%d,\"kind\":\"%s\",\"res\":{\"k\":\"%s\",\"v\":%d},\"path\":[", op, x, kind, rk, rv);
	for (const struct rtr_secure_path_seg *s = b->path; s && guard < 1000; s = s->next, guard++)
		fprintf(out, "%s%u", s == b->path ? "" : ",", s->asn);
	fprintf(out, "],\"sigs\":[");
	guard = 0;
	for (const struct rtr_signature_seg *s = b->sigs; s && guard < 1000; s = s->next, guard++)
		fprintf(out, "%s%u", s == b->sigs ? "" : ",", s->signature[0]);
	fprintf(out, "],\"plen\":%u,\"slen\":%u}\n", b->path_len, b->sigs_len);
}

int main(int argc, char **argv)
{
	if (argc != 4)
		return 2;
	int calls = atoi(argv[2]);
	struct rtr_bgpsec *b = NULL;

	vh_seed(strtoull(argv[1], NULL, 10));
	out = fopen(argv[3], "w");
	for (int c = 0; c < calls; c++) {
		if (!b || vh_rn(60) == 0 || b->path_len > 200 || b->sigs_len > 200) {
			struct rtr_bgpsec_nlri *nl = rtr_bgpsec_nlri_new(3);

			if (b)
				rtr_bgpsec_free(b);
			nl->nlri_len = 24;
			nl->afi = 1;
			memset(nl->nlri, 0, 3);
			b = rtr_bgpsec_new(1, 1, 1, 65000, 65001, nl);
			fprintf(out, "{\"op\":\"new\"}\n");
			continue;
		}
		int x = 1 + vh_rn(250), w = vh_rn(100);
		/* phases: mostly growing, mostly shrinking, mixed */
		int phase = (c / 40) % 3, grow = phase == 0 ? 75 : phase == 1 ? 30 : 50;

		if (w < 50) { /* Secure_Path list */
			if (vh_rn(100) < (unsigned int)grow) {
				struct rtr_secure_path_seg *s = rtr_bgpsec_new_secure_path_seg(vh_rn(256), vh_rn(256), x);

				if (vh_chance(50)) {
					rtr_bgpsec_prepend_sec_path_seg(b, s);
					dump(b, "pp", x, "ok", "void", 0);
				} else {
					rtr_bgpsec_append_sec_path_seg(b, s);
					dump(b, "ap", x, "ok", "void", 0);
				}
			} else {
				struct rtr_secure_path_seg *s = rtr_bgpsec_pop_secure_path_seg(b);

				dump(b, "popp", 0, "ok", s ? (s->next ? "dangling" : "seg") : "null", s ? (int)s->asn : 0);
				if (s)
					lrtr_free(s);
			}
		} else { /* Signature list */
			if (vh_rn(100) < (unsigned int)grow) {
				uint8_t ski[SKI_SIZE], sig[72];
				int k = vh_rn(10);
				const char *kind = k == 0 ? "nullseg" : k == 1 ? "emptyski" : k == 2 ? "zerolen" : "ok";
				bool front = vh_chance(50);
				struct rtr_signature_seg *s = NULL;
				int rc;

				memset(ski, 0, sizeof(ski));
				if (k != 1)
					ski[vh_rn(SKI_SIZE)] = 1 + vh_rn(255); /* a single non-zero octet anywhere makes the SKI non-empty */
				memset(sig, 0x30, sizeof(sig));
				sig[0] = x;
				if (k != 0)
					s = rtr_bgpsec_new_signature_seg(k == 1 ? NULL : ski, 1 + vh_rn(72), sig);
				if (k == 2 && s)
					s->sig_len = 0;
				rc = front ? rtr_bgpsec_prepend_sig_seg(b, s) : rtr_bgpsec_append_sig_seg(b, s);
				dump(b, front ? "ps" : "as", x, kind, rc == RTR_BGPSEC_SUCCESS ? "success" : rc == RTR_BGPSEC_ERROR ? "error" : "other", 0);
				if (rc != RTR_BGPSEC_SUCCESS && s)
					rtr_bgpsec_free_signatures(s);
			} else {
				struct rtr_signature_seg *s = rtr_bgpsec_pop_signature_seg(b);

				dump(b, "pops", 0, "ok", s ? (s->next ? "dangling" : "seg") : "null", s ? s->signature[0] : 0);
				if (s)
					rtr_bgpsec_free_signatures(s);
			}
		}
	}
	if (b)
		rtr_bgpsec_free(b);
	fclose(out);
	return 0;
}
