/*
 * Concurrency harness (C16, C06): real threads on the real tables.
 *
 *   conc_harness rw <seed> <writer-ops> <readers> <out.ndjson>
 *       one writer thread runs a seeded add/remove history on a prefix table and a router-key table and
 *       publishes an atomic operation counter before and after every call (odd = a call is in progress);
 *       reader threads validate routes, look up keys and enumerate, logging the counter at call and return.
 *   conc_harness reload <seed> <records> <readers> <rounds> <out.ndjson>
 *       a synchronising thread performs full loads / atomic reloads through the real rtr_sync() (scripted
 *       in-memory transport) while reader threads validate probe routes and look up probe keys, logging a
 *       global atomic sequence number at call and return.
 * No wall-clock time is used for ordering.  The same binary is built with ThreadSanitizer for the race part.
 */
#include "rtrlib/pfx/pfx_private.h"
#include "rtrlib/rtr/packets_private.h"
#include "rtrlib/rtr/rtr_private.h"
#include "rtrlib/spki/hashtable/ht-spkitable_private.h"
#include "rtrlib/transport/transport.h"
#include "vh.h"

#include <pthread.h>
#include <stdatomic.h>
#include <unistd.h>

static struct pfx_table pfxt;
static struct spki_table spkit;
static struct rtr_socket sockA, sockB;
static atomic_long counter;
static atomic_bool stop_readers;
static FILE *out;
static pthread_mutex_t out_mx = PTHREAD_MUTEX_INITIALIZER;

/* ------------------------------------------------------------ small universe shared by writer and readers */
#define NPFX 24
#define NKEY 80
static struct pfx_record upfx[NPFX];
static struct spki_record ukey[NKEY];
static void mk_universe(void)
{
	for (int i = 0; i < NPFX; i++) {
		struct pfx_record *r = &upfx[i];
		int lvl = i / 3;

		memset(r, 0, sizeof(*r));
		if (i % 3 == 2) {
			r->prefix.ver = LRTR_IPV6;
			r->prefix.u.addr6.addr[0] = 0x20010db8;
			r->prefix.u.addr6.addr[1] = (uint32_t)lvl << 16;
			r->min_len = 48;
			r->max_len = 64;
		} else {
			/* a nested chain 10.0.0.0/8, /11, /14, ... and, for every level, the sibling that differs in the last bit */
			r->prefix.ver = LRTR_IPV4;
			r->min_len = 8 + 3 * lvl;
			r->prefix.u.addr4.addr = 0x0a000000u | (i % 3 == 1 ? 1u << (32 - r->min_len) : 0);
			r->max_len = r->min_len + 2;
		}
		r->asn = 65000 + i % 4;
		r->socket = i % 2 ? &sockB : &sockA;
	}
	for (int i = 0; i < NKEY; i++) {
		memset(&ukey[i], 0, sizeof(ukey[i]));
		ukey[i].asn = 65000 + i / 2; /* pairs share (AS, SKI); distinct AS numbers spread over the hash buckets */
		memset(ukey[i].ski, 0x11, SKI_SIZE);
		ukey[i].ski[0] = (i / 2) % 2;
		memset(ukey[i].spki, 0x22, SPKI_SIZE);
		ukey[i].spki[5] = i;
		ukey[i].socket = i % 3 ? &sockA : &sockB;
	}
}
static void dump_universe(void)
{
	for (int i = 0; i < NPFX; i++) {
		const struct pfx_record *r = &upfx[i];

		if (r->prefix.ver == LRTR_IPV4)
			fprintf(out, "{\"e\":\"upfx\",\"i\":%d,\"r\":{\"f\":4,\"w\":[%u,%u],\"l\":%u,\"m\":%u,\"a\":\"%u\",\"s\":%d}}\n", i + 1,
				r->prefix.u.addr4.addr >> 16, r->prefix.u.addr4.addr & 0xffff, r->min_len, r->max_len, r->asn, r->socket == &sockB);
		else
			fprintf(out, "{\"e\":\"upfx\",\"i\":%d,\"r\":{\"f\":6,\"w\":[%u,%u,%u,%u,0,0,0,0],\"l\":%u,\"m\":%u,\"a\":\"%u\",\"s\":%d}}\n", i + 1,
				r->prefix.u.addr6.addr[0] >> 16, r->prefix.u.addr6.addr[0] & 0xffff, r->prefix.u.addr6.addr[1] >> 16,
				r->prefix.u.addr6.addr[1] & 0xffff, r->min_len, r->max_len, r->asn, r->socket == &sockB);
	}
	for (int i = 0; i < NKEY; i++)
		fprintf(out, "{\"e\":\"ukey\",\"i\":%d,\"a\":\"%u\",\"k\":%d,\"s\":%d}\n", i + 1, ukey[i].asn, ukey[i].ski[0], ukey[i].socket == &sockB);
}
static const char *vname(enum pfxv_state s)
{
	return s == BGP_PFXV_STATE_VALID ? "valid" : s == BGP_PFXV_STATE_INVALID ? "invalid" : "notfound";
}

/* ------------------------------------------------------------ rw mode */
struct rd_arg {
	int id;
	unsigned long long seed;
	long reads;
};
static void emit(const char *s)
{
	pthread_mutex_lock(&out_mx);
	fputs(s, out);
	pthread_mutex_unlock(&out_mx);
}
static void enum_cb(const struct pfx_record *r, void *d)
{
	unsigned long long *mask = d;

	for (int i = 0; i < NPFX; i++)
		if (upfx[i].min_len == r->min_len && upfx[i].asn == r->asn && lrtr_ip_addr_equal(upfx[i].prefix, r->prefix))
			*mask |= 1ull << i;
}
static void *reader_rw(void *p)
{
	struct rd_arg *a = p;
	unsigned long long s = a->seed;
	char buf[512];

	while (!atomic_load(&stop_readers)) {
		s = s * 6364136223846793005ull + 1442695040888963407ull;
		int kind = (s >> 33) % 10;
		int i = (s >> 40) % NPFX, k = (s >> 48) % NKEY;
		long c0 = atomic_load(&counter);

		if (kind < 6) {
			enum pfxv_state res;
			struct lrtr_ip_addr q = upfx[i].prefix;
			unsigned int len = upfx[i].min_len + ((s >> 20) % 3);

			pfx_table_validate(&pfxt, upfx[i].asn, &q, len, &res);
			long c1 = atomic_load(&counter);

			snprintf(buf, sizeof(buf), "{\"e\":\"rval\",\"rd\":%d,\"c0\":%ld,\"c1\":%ld,\"i\":%d,\"len\":%u,\"res\":\"%s\"}\n", a->id, c0,
				 c1, i + 1, len, vname(res));
		} else if (kind < 9) {
			struct spki_record *res = NULL;
			unsigned int n = 0;
			bool hit[NKEY] = {false};

			spki_table_get_all(&spkit, ukey[k].asn, ukey[k].ski, &res, &n);
			long c1 = atomic_load(&counter);

			for (unsigned int j = 0; j < n; j++)
				for (int u = 0; u < NKEY; u++)
					if (!memcmp(res[j].spki, ukey[u].spki, SPKI_SIZE) && res[j].asn == ukey[u].asn)
						hit[u] = true;
			free(res);
			int o = snprintf(buf, sizeof(buf), "{\"e\":\"rget\",\"rd\":%d,\"c0\":%ld,\"c1\":%ld,\"k\":%d,\"n\":%u,\"ks\":[", a->id, c0, c1, k + 1, n);
			for (int u = 0, first = 1; u < NKEY; u++)
				if (hit[u]) {
					o += snprintf(buf + o, sizeof(buf) - o, "%s%d", first ? "" : ",", u + 1);
					first = 0;
				}
			snprintf(buf + o, sizeof(buf) - o, "]}\n");
		} else {
			/* one enumeration call per read: each for_each call takes the table lock on its own */
			unsigned long long mask = 0;
			int fam = (s >> 20) & 1 ? 6 : 4;

			if (fam == 4)
				pfx_table_for_each_ipv4_record(&pfxt, enum_cb, &mask);
			else
				pfx_table_for_each_ipv6_record(&pfxt, enum_cb, &mask);
			long c1 = atomic_load(&counter);

			int o = snprintf(buf, sizeof(buf), "{\"e\":\"renum\",\"rd\":%d,\"c0\":%ld,\"c1\":%ld,\"f\":%d,\"idx\":[", a->id, c0, c1, fam);
			for (int u = 0, first = 1; u < NPFX; u++)
				if (mask & (1ull << u)) {
					o += snprintf(buf + o, sizeof(buf) - o, "%s%d", first ? "" : ",", u + 1);
					first = 0;
				}
			snprintf(buf + o, sizeof(buf) - o, "]}\n");
		}
		emit(buf);
		a->reads++;
	}
	return NULL;
}
/* user callbacks take time: every third notification yields the CPU for a moment (runs in the writer, inside the call) */
static unsigned int cb_calls;
static void slow_pfx_cb(struct pfx_table *t, const struct pfx_record r, const bool added)
{
	(void)t;
	(void)r;
	(void)added;
	if (++cb_calls % 3 == 0)
		usleep(40);
}
static void slow_spki_cb(struct spki_table *t, const struct spki_record r, const bool added)
{
	(void)t;
	(void)r;
	(void)added;
	if (++cb_calls % 3 == 0)
		usleep(40);
}
static int run_rw(unsigned long long seed, int nops, int nreaders)
{
	pthread_t th[16];
	struct rd_arg args[16];
	char buf[256];

	vh_seed(seed);
	dump_universe();
	pfx_table_init(&pfxt, slow_pfx_cb);
	spki_table_init(&spkit, slow_spki_cb);
	for (int i = 0; i < nreaders; i++) {
		args[i] = (struct rd_arg){.id = i + 1, .seed = seed * 977 + i};
		pthread_create(&th[i], NULL, reader_rw, &args[i]);
	}
	bool inp[NPFX] = {false}, ink[NKEY] = {false};
	int nk = 0;

	for (int n = 0; n < nops; n++) {
		int what = vh_rn(10);
		int i = vh_rn(NPFX), k = vh_rn(NKEY);
		/* empty <-> non-empty transitions are the interesting ones for the root pointer: drain now and then */
		bool add = vh_chance(n % 40 < 20 ? 65 : 30);
		int rc;

		if (what >= 7) {
			/* the number of keys swings across the resize thresholds of the hash table (33, 65 / 8, 16) */
			int target = (n / 150) % 3 == 0 ? 70 : (n / 150) % 3 == 1 ? 3 : 40;

			add = vh_chance(nk < target ? 85 : 15);
		}
		atomic_fetch_add(&counter, 1);
		if (what == 0 && n % 3 == 0) {
			/* removal by source: one call, atomic for readers */
			int src = vh_rn(2), keys = vh_rn(3) == 0;

			if (keys)
				spki_table_src_remove(&spkit, src ? &sockB : &sockA);
			else
				pfx_table_src_remove(&pfxt, src ? &sockB : &sockA);
			atomic_fetch_add(&counter, 1);
			if (keys) {
				for (int u = 0; u < NKEY; u++)
					if (ink[u] && (ukey[u].socket == &sockB) == src) {
						ink[u] = false;
						nk--;
					}
			}
			snprintf(buf, sizeof(buf), "{\"e\":\"%s\",\"s\":%d}\n", keys ? "wsrck" : "wsrc", src);
		} else if (what < 7) {
			rc = add ? pfx_table_add(&pfxt, &upfx[i]) : pfx_table_remove(&pfxt, &upfx[i]);
			atomic_fetch_add(&counter, 1);
			if (rc == PFX_SUCCESS)
				inp[i] = add;
			snprintf(buf, sizeof(buf), "{\"e\":\"wpfx\",\"add\":%s,\"i\":%d,\"ok\":%s}\n", add ? "true" : "false", i + 1,
				 rc == PFX_SUCCESS ? "true" : "false");
		} else {
			rc = add ? spki_table_add_entry(&spkit, &ukey[k]) : spki_table_remove_entry(&spkit, &ukey[k]);
			atomic_fetch_add(&counter, 1);
			if (rc == SPKI_SUCCESS) {
				nk += add ? 1 : -1;
				ink[k] = add;
			}
			snprintf(buf, sizeof(buf), "{\"e\":\"wkey\",\"add\":%s,\"k\":%d,\"ok\":%s}\n", add ? "true" : "false", k + 1,
				 rc == SPKI_SUCCESS ? "true" : "false");
		}
		emit(buf);
		if (n % 8 == 0)
			sched_yield();
	}
	atomic_store(&stop_readers, true);
	long total = 0;

	for (int i = 0; i < nreaders; i++) {
		pthread_join(th[i], NULL);
		total += args[i].reads;
	}
	pfx_table_free(&pfxt);
	spki_table_free(&spkit);
	fprintf(out, "{\"e\":\"end\",\"reads\":%ld}\n", total);
	return 0;
}

/* ------------------------------------------------------------ reload mode: real rtr_sync over an in-memory transport */
static uint8_t *stream;
static size_t stream_n, stream_off;
static atomic_long seqno;
static int t_open(void *s)
{
	(void)s;
	return TR_SUCCESS;
}
static void t_close(void *s)
{
	(void)s;
}
static void t_free(struct tr_socket *s)
{
	(void)s;
}
static int t_send(const void *s, const void *pdu, const size_t len, const time_t to)
{
	(void)s;
	(void)pdu;
	(void)to;
	return (int)len;
}
static int t_recv(const void *s, void *buf, const size_t len, const time_t to)
{
	(void)s;
	(void)to;
	size_t n = stream_n - stream_off;

	if (n == 0)
		return TR_WOULDBLOCK;
	if (n > len)
		n = len;
	if (n > 97)
		n = 97; /* many small reads: the sync thread yields the CPU often */
	memcpy(buf, stream + stream_off, n);
	stream_off += n;
	if ((stream_off / 97) % 64 == 0)
		sched_yield();
	return (int)n;
}
static void put32(uint8_t *p, uint32_t v)
{
	p[0] = v >> 24;
	p[1] = v >> 16;
	p[2] = v >> 8;
	p[3] = v;
}
static void s_hdr(uint8_t t, uint16_t f16, uint32_t len)
{
	uint8_t *p = stream + stream_n;

	p[0] = 1;
	p[1] = t;
	p[2] = f16 >> 8;
	p[3] = f16;
	put32(p + 4, len);
}
static void s_ipv4(uint32_t pfx, uint8_t len, uint8_t max, uint32_t asn)
{
	uint8_t *p = stream + stream_n;

	s_hdr(4, 0, 20);
	p[8] = 1;
	p[9] = len;
	p[10] = max;
	p[11] = 0;
	put32(p + 12, pfx);
	put32(p + 16, asn);
	stream_n += 20;
}
static void s_ipv6(uint32_t top, uint8_t len, uint8_t max, uint32_t asn)
{
	uint8_t *p = stream + stream_n;

	s_hdr(6, 0, 32);
	p[8] = 1;
	p[9] = len;
	p[10] = max;
	p[11] = 0;
	memset(p + 12, 0, 16);
	put32(p + 12, top);
	put32(p + 28, asn);
	stream_n += 32;
}
/* address families of a reload run: 0 = everything IPv4, 1 = everything IPv6 (the IPv4 trie stays empty), 2 = bulk and the
 * other socket's record IPv6, probes IPv4.  An IPv6 record is the IPv4 one with its 32 bits as the top word. */
static int fam_mode;
static void s_rec(bool v6, uint32_t pfx, uint8_t len, uint8_t max, uint32_t asn)
{
	if (v6)
		s_ipv6(pfx, len, max, asn);
	else
		s_ipv4(pfx, len, max, asn);
}
static void q_addr(struct lrtr_ip_addr *q, bool v6, uint32_t a)
{
	memset(q, 0, sizeof(*q));
	if (v6) {
		q->ver = LRTR_IPV6;
		q->u.addr6.addr[0] = a;
	} else {
		q->ver = LRTR_IPV4;
		q->u.addr4.addr = a;
	}
}
static void s_key(uint32_t asn, uint8_t skib, uint8_t spkib)
{
	uint8_t *p = stream + stream_n;

	s_hdr(9, 0x0100, 123);
	memset(p + 8, 0x11, SKI_SIZE);
	p[8] = skib;
	put32(p + 28, asn);
	memset(p + 32, 0x22, SPKI_SIZE);
	p[32 + 5] = spkib;
	stream_n += 123;
}
/* data set number g: probe records differ between generations in a known way (see the trace spec) */
static void build_stream(uint16_t sess, uint32_t serial, int gen, int nrec, bool with_keys)
{
	stream_n = stream_off = 0;
	s_hdr(3, sess, 8);
	stream_n += 8;
	/* bulk: nrec /24s under 100.0.0.0/8 with a generation-dependent AS, so that reloads do real work */
	for (int i = 0; i < nrec; i++)
		s_rec(fam_mode != 0, 0x64000000u | (i << 8), 24, 24, 64000 + gen % 2);
	/* probes: P1 constant in every generation; P2 present in even generations only; P3 AS changes with the generation */
	s_rec(fam_mode == 1, 0xc0000200u, 24, 24, 65001);
	if (gen % 2 == 0)
		s_rec(fam_mode == 1, 0xc6336400u, 24, 24, 65002);
	s_rec(fam_mode == 1, 0xcb007100u, 24, 24, 65100 + gen);
	if (with_keys) {
		s_key(65001, 1, 1);
		s_key(65003, 3, (uint8_t)(100 + gen));
	}
	uint8_t *p = stream + stream_n;

	s_hdr(7, sess, 24);
	put32(p + 8, serial);
	put32(p + 12, 3600);
	put32(p + 16, 600);
	put32(p + 20, 7200);
	stream_n += 24;
}
static atomic_int cur_gen; /* generation being loaded (published before rtr_sync starts) / completed */
static atomic_int done_gen;
/* Schedule steering without source hooks: reader 1 ("victim") is held at the moment it asks for the prefix table's
 * read lock while a reload is in progress, and released when that reload has completed (old tables swapped out and
 * freed).  Code that takes the lock before it looks at the table is unaffected; code that looked first walks stale data. */
static __thread int victim_target = -1;
int __real_pthread_rwlock_rdlock(pthread_rwlock_t *l);
int __wrap_pthread_rwlock_rdlock(pthread_rwlock_t *l)
{
	if (l == &pfxt.lock && victim_target >= 0) {
		int spins = 0;

		while (atomic_load(&done_gen) < victim_target && !atomic_load(&stop_readers) && spins++ < 2000000)
			sched_yield();
		victim_target = -1;
	}
	return __real_pthread_rwlock_rdlock(l);
}
static void *reader_reload(void *p)
{
	struct rd_arg *a = p;
	char buf[512];
	unsigned long long s = a->seed;

	while (!atomic_load(&stop_readers)) {
		s = s * 6364136223846793005ull + 1442695040888963407ull;
		int probe = (s >> 33) % 8; /* 0..3 prefixes of the reloading socket, 4..5 its keys, 6 / 7 the OTHER socket's prefix / key */
		int g0 = atomic_load(&done_gen);
		long q0 = atomic_fetch_add(&seqno, 1);

		if (a->id == 1 && (probe < 4 || probe == 6) && atomic_load(&cur_gen) > g0)
			victim_target = atomic_load(&cur_gen); /* a reload is in progress: hold this read at the lock until it is over */
		if (probe < 4 || probe == 6) {
			static const uint32_t addr[7] = {0xc0000200u, 0xc6336400u, 0xcb007100u, 0x64000100u, 0, 0, 0xcb000000u};
			static const uint32_t asn[7] = {65001, 65002, 0, 64000, 0, 0, 64999};
			struct lrtr_ip_addr q;
			enum pfxv_state res;
			/* probe 3 asks with the AS of the generation that was complete when the call started */
			uint32_t as = probe == 2 ? 65100 + (uint32_t)(s >> 50) % 8 : asn[probe];
			bool v6 = probe == 3 || probe == 6 ? fam_mode != 0 : fam_mode == 1;

			q_addr(&q, v6, addr[probe]);
			/* the other socket's /16 is asked at length 16: no record of the reloading socket covers it, so the answer
			 * is VALID at all times */
			pfx_table_validate(&pfxt, as, &q, probe == 6 ? 16 : 24, &res);
			long q1 = atomic_fetch_add(&seqno, 1);
			int g1 = atomic_load(&cur_gen);

			snprintf(buf, sizeof(buf), "{\"e\":\"pval\",\"rd\":%d,\"q0\":%ld,\"q1\":%ld,\"g0\":%d,\"g1\":%d,\"p\":%d,\"as\":%u,\"res\":\"%s\"}\n",
				 a->id, q0, q1, g0, g1, probe + 1, as, vname(res));
		} else {
			uint8_t ski[SKI_SIZE];
			struct spki_record *res = NULL;
			unsigned int n = 0;
			uint32_t as = probe == 4 ? 65001 : probe == 5 ? 65003 : 64999;

			memset(ski, 0x11, SKI_SIZE);
			ski[0] = probe == 4 ? 1 : probe == 5 ? 3 : 9;
			spki_table_get_all(&spkit, as, ski, &res, &n);
			long q1 = atomic_fetch_add(&seqno, 1);
			int g1 = atomic_load(&cur_gen);
			int tag = n ? res[0].spki[5] : -1;

			free(res);
			snprintf(buf, sizeof(buf), "{\"e\":\"pkey\",\"rd\":%d,\"q0\":%ld,\"q1\":%ld,\"g0\":%d,\"g1\":%d,\"p\":%d,\"n\":%u,\"tag\":%d}\n", a->id,
				 q0, q1, g0, g1, probe + 1, n, tag);
		}
		emit(buf);
		a->reads++;
	}
	return NULL;
}
static void otherrec(void)
{
	struct pfx_record r = {.asn = 64999, .min_len = 16, .max_len = 24, .socket = &sockB};
	struct spki_record k;

	q_addr(&r.prefix, fam_mode != 0, 0xcb000000u);
	pfx_table_add(&pfxt, &r);
	memset(&k, 0, sizeof(k));
	k.asn = 64999;
	memset(k.ski, 0x11, SKI_SIZE);
	k.ski[0] = 9;
	memset(k.spki, 0x22, SPKI_SIZE);
	k.socket = &sockB;
	spki_table_add_entry(&spkit, &k);
}
static int run_reload(unsigned long long seed, int nrec, int nreaders, int rounds)
{
	pthread_t th[16];
	struct rd_arg args[16];
	struct tr_socket tr = {.open_fp = t_open, .close_fp = t_close, .free_fp = t_free, .send_fp = t_send, .recv_fp = t_recv};
	char buf[256];

	vh_seed(seed);
	fam_mode = (int)(seed % 3);
	stream = malloc((size_t)nrec * 32 + 4096);
	pfx_table_init(&pfxt, NULL);
	spki_table_init(&spkit, NULL);
	otherrec();
	rtr_init(&sockA, &tr, &pfxt, &spkit, 3600, 7200, 600, RTR_INTERVAL_MODE_IGNORE_ANY, NULL, NULL, NULL);
	sockA.state = RTR_SYNC;
	/* generation 0: the first full load (not a reload; readers start afterwards) */
	atomic_store(&cur_gen, 0);
	build_stream(100, 1, 0, nrec, true);
	int rc = rtr_sync(&sockA);

	fprintf(out, "{\"e\":\"load\",\"gen\":0,\"rc\":%d,\"keys\":true}\n", rc);
	atomic_store(&done_gen, 0);
	for (int i = 0; i < nreaders; i++) {
		args[i] = (struct rd_arg){.id = i + 1, .seed = seed * 131 + i};
		pthread_create(&th[i], NULL, reader_reload, &args[i]);
	}
	for (int g = 1; g <= rounds; g++) {
		bool with_keys = vh_chance(70);

		/* as after a Cache Reset / session change: the socket asks for a full set, it has data => atomic reload */
		sockA.request_session_id = true;
		sockA.state = RTR_SYNC;
		build_stream(100 + g, 1, g, nrec, with_keys);
		atomic_store(&cur_gen, g);
		long s0 = atomic_fetch_add(&seqno, 1);

		rc = rtr_sync(&sockA);
		long s1 = atomic_fetch_add(&seqno, 1);

		atomic_store(&done_gen, g);
		snprintf(buf, sizeof(buf), "{\"e\":\"reload\",\"gen\":%d,\"rc\":%d,\"s0\":%ld,\"s1\":%ld,\"keys\":%s}\n", g, rc, s0, s1,
			 with_keys ? "true" : "false");
		emit(buf);
		for (int y = 0; y < 50; y++)
			sched_yield();
	}
	atomic_store(&stop_readers, true);
	long total = 0;

	for (int i = 0; i < nreaders; i++) {
		pthread_join(th[i], NULL);
		total += args[i].reads;
	}
	fprintf(out, "{\"e\":\"end\",\"reads\":%ld}\n", total);
	pfx_table_free(&pfxt);
	spki_table_free(&spkit);
	free(stream);
	return 0;
}

int main(int argc, char **argv)
{
	if (argc < 2)
		return 2;
	mk_universe();
	alarm(300);
	if (!strcmp(argv[1], "rw") && argc == 6) {
		out = fopen(argv[5], "w");
		setvbuf(out, NULL, _IOFBF, 1 << 20);
		run_rw(strtoull(argv[2], NULL, 10), atoi(argv[3]), atoi(argv[4]));
	} else if (!strcmp(argv[1], "reload") && argc == 7) {
		out = fopen(argv[6], "w");
		setvbuf(out, NULL, _IOFBF, 1 << 20);
		run_reload(strtoull(argv[2], NULL, 10), atoi(argv[3]), atoi(argv[4]), atoi(argv[5]));
	} else {
		return 2;
	}
	fclose(out);
	return 0;
}
