/*
 * Protocol harness: runs the REAL rtr_socket state machine (rtr_start -> rtr_fsm_start thread)
 * against a scripted transport (struct tr_socket function pointers) with a virtual clock
 * (link-time --wrap of sleep and lrtr_get_monotonic_time), and logs one ndjson event per
 * interaction at the seams: open / send / recv / sleep / close / state callback / table
 * callbacks / start / stop.  The log is validated against spec/RtrSocketTrace.tla.
 *
 *   fsm_harness <script.ndjson> <out.ndjson>
 *
 * Script (one JSON object per line):
 *   {"new":{"refresh":N,"expire":N,"retry":N,"mode":"ignore_any|accept_any|min_max|ignore_on_failure",
 *           "others":[REC...]}}            begin a new execution (fresh socket and tables)
 *   {"open":"ok"|"fail"}                   result of the next transport open (default ok)
 *   {"ex":{"alts":[{"q":"reset|serial|any","sess":N,"sn":"S","items":[ITEM...]}],
 *          "sendrc":"ok|err|wouldblock","sendchunk":N,"chunk":N}}   reaction to the next query
 *   {"run":true}                           run the execution until the exchanges are used up, then stop it
 *   ITEM: {"f":FRAME} | {"fault":"err|timeout|closed|intr","at":K} | {"tick":N} | {"park":"stopstart"}
 * All seam calls happen in the FSM thread, so the order of events is the client's program order.
 */
#include "rtrlib/lib/alloc_utils.h"
#include "rtrlib/pfx/pfx_private.h"
#include "rtrlib/rtr/packets_private.h"
#include "rtrlib/rtr/rtr_private.h"
#include "rtrlib/spki/hashtable/ht-spkitable_private.h"
#include "rtrlib/transport/transport.h"
#include "vh.h"
#include "vh_alloc.h"

#include <arpa/inet.h>
#include <pthread.h>
#include <semaphore.h>
#include <unistd.h>
#if defined(__has_feature)
#if __has_feature(memory_sanitizer)
#include <sanitizer/msan_interface.h>
#define VH_MSAN 1
#endif
#endif

/* ------------------------------------------------------------------ state */
static FILE *out;
static time_t vnow = 1000;
static struct rtr_socket rsock, other_sock;
static struct tr_socket tr;
static struct pfx_table pfxt;
static struct spki_table spkit;
static sem_t sem_done, sem_go;
static volatile bool done, logging = true, parked;
static volatile int park_kind; /* 0 none, 1 stopstart requested */
static long seam_calls_without_progress;
static bool cur_keepopen; /* the cache keeps talking after it has received an Error Report */
static volatile int cbpark_countdown; /* park the FSM thread inside the k-th table callback of this exchange */
static volatile bool parked_in_cb;
static sem_t sem_cb;
static bool hang_reported;

/* queues of directives for the current execution */
#define QMAX 4096
static struct vj *openq[QMAX], *exq[QMAX];
static int openq_n, openq_i, exq_n, exq_i;

/* current connection */
static bool conn_open;
static uint8_t sbuf[8192];
static size_t sbuf_n;
static bool send_failed_on_conn, got_error_report;
/* current exchange stream */
static struct vj *cur_items;
static int cur_item_i;
static int cur_chunk;
static uint8_t fbuf[8192]; /* frame being delivered */
static size_t fbuf_n, fbuf_off;
static bool frame_pending; /* header delivered, event not yet emitted */
static struct vh_buf fdesc; /* JSON description of the frame being delivered */
static long first_to = -1;
/* every transport receive call that contributed to the current frame: time of the call, timeout handed in, offset */
static struct {
	long now, to;
	size_t off;
} rcalls[24];
static int rcalls_n;
static long cur_ctick; /* seconds that pass after each partial delivery of the current frame */
static long send_tick; /* seconds that pass after the first partial write of the current query */
static bool query_in_sbuf; /* the incomplete PDU in sbuf is a query whose directive has not been consumed yet */

/* values handed to the specification stay below 2^30 (TLC integers are 32 bit); the virtual clock
 * never advances by more than 2^22 s in one step */
static long sat(time_t t)
{
	return t > 1073741824 ? 1073741824 : (long)t;
}
static long adv(time_t t)
{
	return t > 4194304 ? 4194304 : (long)t;
}

/* ------------------------------------------------------------------ tokens */
static void tok_pfx(struct vh_buf *b, const struct pfx_record *r)
{
	if (r->prefix.ver == LRTR_IPV4)
		vh_bput(b, "4:%08x/%u-%u:%u", r->prefix.u.addr4.addr, r->min_len, r->max_len, r->asn);
	else
		vh_bput(b, "6:%08x%08x%08x%08x/%u-%u:%u", r->prefix.u.addr6.addr[0], r->prefix.u.addr6.addr[1],
			r->prefix.u.addr6.addr[2], r->prefix.u.addr6.addr[3], r->min_len, r->max_len, r->asn);
}
static void hexput(struct vh_buf *b, const uint8_t *p, size_t n)
{
	for (size_t i = 0; i < n; i++)
		vh_bput(b, "%02x", p[i]);
}
static uint32_t fnv32(const uint8_t *p, size_t n)
{
	uint32_t h = 2166136261u;

	for (size_t i = 0; i < n; i++)
		h = (h ^ p[i]) * 16777619u;
	return h;
}
static void tok_key(struct vh_buf *b, const struct spki_record *r)
{
	/* ski and spki are logged by a 32-bit FNV-1a digest of all their bytes */
	vh_bput(b, "k:%u:%08x:%08x", r->asn, fnv32(r->ski, SKI_SIZE), fnv32(r->spki, SPKI_SIZE));
}

/* table projection: tokens of my records and of the other source's records */
struct proj {
	struct vh_buf my, oth;
	int nmy, noth;
};
static __thread struct proj pj;
static void proj_pfx_cb(const struct pfx_record *r, void *d)
{
	(void)d;
	struct vh_buf *b = r->socket == &rsock ? &pj.my : &pj.oth;
	int *n = r->socket == &rsock ? &pj.nmy : &pj.noth;

	vh_bput(b, "%s\"", (*n)++ ? "," : "");
	tok_pfx(b, r);
	vh_bput(b, "\"");
}
static void put_projection(struct vh_buf *b)
{
	vh_breset(&pj.my);
	vh_breset(&pj.oth);
	pj.nmy = pj.noth = 0;
	pfx_table_for_each_ipv4_record(&pfxt, proj_pfx_cb, NULL);
	pfx_table_for_each_ipv6_record(&pfxt, proj_pfx_cb, NULL);
	/* keys: walk the table's list (read-only; the FSM thread is the only writer and it is the caller) */
	pthread_rwlock_rdlock(&spkit.lock);
	for (tommy_node *n = tommy_list_head(&spkit.list); n; n = n->next) {
		/* struct key_entry is private to ht-spkitable.c: ski[20], asn, spki[91], socket */
		struct {
			uint8_t ski[SKI_SIZE];
			uint32_t asn;
			uint8_t spki[SPKI_SIZE];
			const struct rtr_socket *socket;
		} *e = n->data;
		struct spki_record r;

		memcpy(r.ski, e->ski, SKI_SIZE);
		memcpy(r.spki, e->spki, SPKI_SIZE);
		r.asn = e->asn;
		r.socket = e->socket;
		struct vh_buf *b = r.socket == &rsock ? &pj.my : &pj.oth;
		int *cnt = r.socket == &rsock ? &pj.nmy : &pj.noth;

		vh_bput(b, "%s\"", (*cnt)++ ? "," : "");
		tok_key(b, &r);
		vh_bput(b, "\"");
	}
	pthread_rwlock_unlock(&spkit.lock);
	vh_bput(b, "\"my\":[%s],\"oth\":[%s]", pj.my.p ? pj.my.p : "", pj.oth.p ? pj.oth.p : "");
}
static void put_sock(struct vh_buf *b)
{
	/* diagnostic only (never compared by the specification) */
	vh_bput(b, "\"dbg\":{\"st\":%d,\"sess\":%u,\"sn\":\"%u\",\"rs\":%d,\"lu\":%ld,\"ver\":%u,\"rst\":%d}", rsock.state,
		rsock.session_id, rsock.serial_number, rsock.request_session_id, (long)rsock.last_update, rsock.version,
		rsock.is_resetting);
}
static pthread_mutex_t out_mx = PTHREAD_MUTEX_INITIALIZER;
static unsigned long long out_bytes;
static void emit(struct vh_buf *b)
{
	if (!logging)
		return;
	pthread_mutex_lock(&out_mx);
	fputs(b->p, out);
	fputc('\n', out);
	out_bytes += strlen(b->p) + 1;
	pthread_mutex_unlock(&out_mx);
	if (out_bytes > 700000000ull) {
		/* a trace this long means the client is spinning */
		fflush(out);
		fprintf(stderr, "HANG: trace exceeds 700 MB\n");
		_exit(3);
	}
}
static __thread struct vh_buf evb;
static void ev_begin(const char *name)
{
	vh_breset(&evb);
	vh_bput(&evb, "{\"e\":\"%s\",\"now\":%ld", name, (long)vnow);
}
static void ev_end(bool with_proj)
{
	if (with_proj) {
		vh_bput(&evb, ",");
		put_projection(&evb);
	}
	vh_bput(&evb, ",");
	put_sock(&evb);
	if (injected_now)
		vh_bput(&evb, ",\"af\":true"); /* an allocation of the library has been failed earlier in this execution */
	vh_bput(&evb, "}");
	emit(&evb);
}
static void put_iv(struct vh_buf *b, const char *k, uint32_t v)
{
	vh_bput(b, "\"%s\":{\"s\":\"%u\",\"n\":%u}", k, v, v > 1073741824u ? 1073741824u : v);
}
static void put_ivs(struct vh_buf *b)
{
	vh_bput(b, "\"iv\":{");
	put_iv(b, "r", rsock.refresh_interval);
	vh_bput(b, ",");
	put_iv(b, "t", rsock.retry_interval);
	vh_bput(b, ",");
	put_iv(b, "e", rsock.expire_interval);
	vh_bput(b, "}");
}

/* ------------------------------------------------------------------ watchdog */
static void progress(void)
{
	seam_calls_without_progress = 0;
}
static void seam(void)
{
	if (++seam_calls_without_progress > 5000 && !hang_reported) {
		hang_reported = true;
		ev_begin("hang");
		ev_end(false);
		fflush(out);
		_exit(3);
	}
}

/* ------------------------------------------------------------------ frame encoding */
static const char *tname(unsigned int t)
{
	static const char *n[] = {"serial_notify", "serial_query", "reset_query", "cache_response", "ipv4", "reserved5",
				  "ipv6",	   "eod",	   "cache_reset", "router_key",     "error"};
	return t <= 10 ? n[t] : "unknown";
}
static int ttype(const char *s)
{
	for (int t = 0; t <= 10; t++)
		if (!strcmp(s, tname(t)))
			return t;
	return -1;
}
static void put32(uint8_t *p, uint32_t v)
{
	p[0] = v >> 24;
	p[1] = v >> 16;
	p[2] = v >> 8;
	p[3] = v;
}
static uint32_t get32(const uint8_t *p)
{
	return ((uint32_t)p[0] << 24) | (p[1] << 16) | (p[2] << 8) | p[3];
}
static size_t unhex(const char *h, uint8_t *o, size_t max)
{
	size_t n = 0;

	while (h[0] && h[1] && n < max) {
		unsigned int v;

		sscanf(h, "%2x", &v);
		o[n++] = v;
		h += 2;
	}
	return n;
}
static void ski_bytes(int id, uint8_t *b)
{
	memset(b, 0x11, SKI_SIZE);
	b[id % SKI_SIZE] ^= (uint8_t)(1 + id / SKI_SIZE);
}
static void spki_bytes(int id, uint8_t *b)
{
	memset(b, 0x22, SPKI_SIZE);
	b[id % SPKI_SIZE] ^= (uint8_t)(1 + id / SPKI_SIZE);
}
/* builds the bytes of a frame from its JSON description; returns the number of bytes */
static unsigned int qver = 1; /* protocol version of the last query the client sent */
static size_t encode_frame(const struct vj *f, uint8_t *o)
{
	const char *t = vj_str(f, "t", "raw");
	unsigned int v = vj_int(f, "v", 1);
	struct vj *vv = vj_get(f, "v");

	/* "q0"/"q1": a cache whose highest version is 0/1 answers in the version of the query (RFC 8210 section 7) */
	if (vv && vv->t == VJ_STR && vv->str[0] == 'q') {
		unsigned int mx = vv->str[1] - '0';

		v = qver < mx ? qver : mx;
	}
	size_t n = 8;

	memset(o, 0, 4096);
	if (!strcmp(t, "raw"))
		return unhex(vj_str(f, "hex", ""), o, 4000);
	int tn = vj_get(f, "tn") ? (int)vj_int(f, "tn", 0) : ttype(t);

	o[0] = v;
	o[1] = tn;
	if (!strcmp(t, "cache_response") || !strcmp(t, "cache_reset") || !strcmp(t, "reset_query") ||
	    !strcmp(t, "reserved5") || !strcmp(t, "unknown")) {
		o[2] = vj_int(f, "sess", 0) >> 8;
		o[3] = vj_int(f, "sess", 0);
	} else if (!strcmp(t, "serial_notify") || !strcmp(t, "serial_query")) {
		o[2] = vj_int(f, "sess", 0) >> 8;
		o[3] = vj_int(f, "sess", 0);
		put32(o + 8, (uint32_t)strtoul(vj_str(f, "sn", "0"), NULL, 10));
		n = 12;
	} else if (!strcmp(t, "eod")) {
		o[2] = vj_int(f, "sess", 0) >> 8;
		o[3] = vj_int(f, "sess", 0);
		put32(o + 8, (uint32_t)strtoul(vj_str(f, "sn", "0"), NULL, 10));
		n = 12;
		if (vj_int(f, "long", v >= 1)) {
			put32(o + 12, (uint32_t)strtoul(vj_str(f, "refresh", "3600"), NULL, 10));
			put32(o + 16, (uint32_t)strtoul(vj_str(f, "retry", "600"), NULL, 10));
			put32(o + 20, (uint32_t)strtoul(vj_str(f, "expire", "7200"), NULL, 10));
			n = 24;
		}
	} else if (!strcmp(t, "ipv4")) {
		o[2] = vj_int(f, "res", 0) >> 8;
		o[3] = vj_int(f, "res", 0);
		o[8] = vj_int(f, "flags", 1);
		o[9] = vj_int(f, "len_", 0);
		o[10] = vj_int(f, "max", 0);
		o[11] = vj_int(f, "zero", 0);
		unhex(vj_str(f, "pfx", "00000000"), o + 12, 4);
		put32(o + 16, (uint32_t)strtoul(vj_str(f, "asn", "0"), NULL, 10));
		n = 20;
	} else if (!strcmp(t, "ipv6")) {
		o[2] = vj_int(f, "res", 0) >> 8;
		o[3] = vj_int(f, "res", 0);
		o[8] = vj_int(f, "flags", 1);
		o[9] = vj_int(f, "len_", 0);
		o[10] = vj_int(f, "max", 0);
		o[11] = vj_int(f, "zero", 0);
		unhex(vj_str(f, "pfx", "00000000000000000000000000000000"), o + 12, 16);
		put32(o + 28, (uint32_t)strtoul(vj_str(f, "asn", "0"), NULL, 10));
		n = 32;
	} else if (!strcmp(t, "router_key")) {
		o[2] = vj_int(f, "flags", 1);
		o[3] = vj_int(f, "zero", 0);
		ski_bytes(vj_int(f, "ski", 0), o + 8);
		put32(o + 28, (uint32_t)strtoul(vj_str(f, "asn", "0"), NULL, 10));
		spki_bytes(vj_int(f, "spki", 0), o + 32);
		n = 123;
	} else if (!strcmp(t, "error")) {
		o[2] = vj_int(f, "code", 0) >> 8;
		o[3] = vj_int(f, "code", 0);
		size_t enc = unhex(vj_str(f, "enc", ""), o + 12, 3000);
		const char *txt = vj_str(f, "txt", "");
		size_t tl = strlen(txt);

		put32(o + 8, vj_get(f, "enclen") ? (uint32_t)vj_int(f, "enclen", 0) : (uint32_t)enc);
		put32(o + 12 + enc, vj_get(f, "txtlen") ? (uint32_t)vj_int(f, "txtlen", 0) : (uint32_t)tl);
		memcpy(o + 16 + enc, txt, tl);
		n = 16 + enc + tl;
	}
	uint32_t declared = vj_get(f, "len") ? (uint32_t)strtoul(vj_str(f, "len", "0"), NULL, 10) : (uint32_t)n;

	if (vj_get(f, "len") && vj_get(f, "len")->t == VJ_NUM)
		declared = (uint32_t)vj_get(f, "len")->num;
	put32(o + 4, declared);
	if (declared >= 8 && declared <= 4000) {
		/* the stream supplies exactly the bytes the length field announces */
		if (declared > n)
			memset(o + n, 0xEE, declared - n);
		n = declared;
	}
	return n;
}
/* JSON description of a frame, obtained by decoding the bytes actually put on the wire */
static void describe_frame(struct vh_buf *b, const uint8_t *p, size_t n)
{
	unsigned int v = n > 0 ? p[0] : 0, tn = n > 1 ? p[1] : 255;
	uint32_t len = n >= 8 ? get32(p + 4) : 0;
	unsigned int f16 = n >= 4 ? (p[2] << 8 | p[3]) : 0;

	vh_bput(b, "{\"t\":\"%s\",\"tn\":%u,\"v\":%u,\"len\":{\"s\":\"%u\",\"n\":%u},\"nbytes\":%zu,\"sess\":%u", tname(tn), tn, v,
		len, len > 1000000u ? 1000000u : len, n, f16);
	if ((tn == 0 || tn == 1 || tn == 7) && n >= 12)
		vh_bput(b, ",\"sn\":\"%u\"", get32(p + 8));
	if (tn == 7 && n >= 24) {
		vh_bput(b, ",\"iv\":{");
		put_iv(b, "r", get32(p + 12));
		vh_bput(b, ",");
		put_iv(b, "t", get32(p + 16));
		vh_bput(b, ",");
		put_iv(b, "e", get32(p + 20));
		vh_bput(b, "}");
	}
	if (tn == 4 && n >= 20) {
		struct pfx_record r = {.asn = get32(p + 16), .min_len = p[9], .max_len = p[10]};

		r.prefix.ver = LRTR_IPV4;
		r.prefix.u.addr4.addr = get32(p + 12);
		vh_bput(b, ",\"flags\":%u,\"zero\":%u,\"rec\":\"", p[8], p[11]);
		tok_pfx(b, &r);
		vh_bput(b, "\"");
	}
	if (tn == 6 && n >= 32) {
		struct pfx_record r = {.asn = get32(p + 28), .min_len = p[9], .max_len = p[10]};

		r.prefix.ver = LRTR_IPV6;
		for (int i = 0; i < 4; i++)
			r.prefix.u.addr6.addr[i] = get32(p + 12 + 4 * i);
		vh_bput(b, ",\"flags\":%u,\"zero\":%u,\"rec\":\"", p[8], p[11]);
		tok_pfx(b, &r);
		vh_bput(b, "\"");
	}
	if (tn == 9 && n >= 123) {
		struct spki_record r;

		memcpy(r.ski, p + 8, SKI_SIZE);
		r.asn = get32(p + 28);
		memcpy(r.spki, p + 32, SPKI_SIZE);
		vh_bput(b, ",\"flags\":%u,\"zero\":%u,\"rec\":\"", p[2], p[3]);
		tok_key(b, &r);
		vh_bput(b, "\"");
	}
	if (tn == 10 && n >= 12) {
		uint32_t enclen = get32(p + 8);

		vh_bput(b, ",\"code\":%u,\"enclen\":{\"s\":\"%u\",\"n\":%u}", f16, enclen, enclen > 1000000u ? 1000000u : enclen);
		if (n >= 16 && enclen <= n - 16) {
			uint32_t tl = get32(p + 12 + enclen);

			vh_bput(b, ",\"txtlen\":{\"s\":\"%u\",\"n\":%u}", tl, tl > 1000000u ? 1000000u : tl);
		}
	}
	vh_bput(b, ",\"raw\":\"");
	hexput(b, p, n > 160 ? 160 : n);
	vh_bput(b, "\",\"rawcut\":%s}", n > 160 ? "true" : "false");
}

/* the same for the transport send calls that carried the PDU being written */
static struct {
	long now, to;
} scalls[24];
static int scalls_n;
static void put_scalls(struct vh_buf *b)
{
	if (scalls_n >= 2) {
		vh_bput(b, ",\"calls\":[");
		for (int i = 0; i < scalls_n; i++)
			vh_bput(b, "%s{\"now\":%ld,\"to\":%ld,\"off\":100}", i ? "," : "", scalls[i].now, sat(scalls[i].to));
		vh_bput(b, "]");
	}
	scalls_n = 0;
}
static void put_rcalls(struct vh_buf *b)
{
	if (rcalls_n < 2)
		return;
	vh_bput(b, "\"calls\":[");
	for (int i = 0; i < rcalls_n; i++)
		vh_bput(b, "%s{\"now\":%ld,\"to\":%ld,\"off\":%zu}", i ? "," : "", rcalls[i].now, sat(rcalls[i].to), rcalls[i].off);
	vh_bput(b, "],");
}
/* ------------------------------------------------------------------ flushing a pending frame event */
static void flush_frame(bool full)
{
	if (!frame_pending)
		return;
	frame_pending = false;
	if (fbuf_off >= fbuf_n)
		full = true;
	ev_begin("recv");
	vh_bput(&evb, ",\"f\":%s,\"full\":%s,\"consumed\":%zu,\"to\":%ld,", fdesc.p, full ? "true" : "false", fbuf_off, sat(first_to));
	put_rcalls(&evb);
	put_ivs(&evb);
	ev_end(false);
	first_to = -1;
	rcalls_n = 0;
	if (!full) {
		/* the client abandoned the frame after its header: the rest of the frame is dropped */
		fbuf_n = fbuf_off = 0;
	}
}

/* ------------------------------------------------------------------ clock */
int __wrap_lrtr_get_monotonic_time(time_t *seconds)
{
	*seconds = vnow;
	return 0;
}
static void park_until_go(void)
{
	parked = true;
	sem_post(&sem_done);
	sem_wait(&sem_go); /* cancellation point: rtr_stop cancels the thread here */
	parked = false;
}
static bool cancel_enabled(void)
{
	int old;

	pthread_setcancelstate(PTHREAD_CANCEL_DISABLE, &old);
	pthread_setcancelstate(old, NULL);
	return old == PTHREAD_CANCEL_ENABLE;
}
unsigned int __wrap_sleep(unsigned int s)
{
	seam();
	flush_frame(false);
	if ((done || park_kind) && cancel_enabled()) {
		/* end of script, or a stop/start requested: park where cancellation is enabled */
		ev_begin("sleep");
		vh_bput(&evb, ",\"sec\":%ld,\"adv\":0,\"parked\":true", sat(s));
		ev_end(true);
		fflush(out);
		park_until_go();
		return 0;
	}
	ev_begin("sleep");
	vh_bput(&evb, ",\"sec\":%ld,\"adv\":%ld", sat(s), adv(s));
	vnow += adv(s);
	if (s > 0)
		progress();
	ev_end(true);
	return 0;
}

/* ------------------------------------------------------------------ transport */
static void sent_pdu_event(const uint8_t *p, size_t n)
{
	unsigned int tn = p[1];

	ev_begin("send");
	vh_bput(&evb, ",\"t\":\"%s\",\"tn\":%u,\"v\":%u,\"len\":%zu,\"sess\":%u", tname(tn), tn, p[0], n, p[2] << 8 | p[3]);
	if (tn == 1 && n >= 12)
		vh_bput(&evb, ",\"sn\":\"%u\"", get32(p + 8));
	if (tn == 10 && n >= 16) {
		uint32_t enclen = get32(p + 8);
		bool ok = enclen <= n - 16;
		uint32_t tl = ok ? get32(p + 12 + enclen) : 0;

		vh_bput(&evb, ",\"code\":%u,\"enclen\":%u,\"lenok\":%s,\"txtlen\":%u,\"enc\":\"", p[2] << 8 | p[3], enclen,
			(ok && 16 + enclen + tl == n) ? "true" : "false", tl);
		if (ok)
			hexput(&evb, p + 12, enclen > 160 ? 160 : enclen);
		vh_bput(&evb, "\"");
	}
	put_scalls(&evb);
	ev_end(true);
}
static void drain_sbuf(void)
{
	while (sbuf_n >= 8) {
		uint32_t len = get32(sbuf + 4);

		if (len < 8 || len > sizeof(sbuf)) {
			ev_begin("sendbad");
			vh_bput(&evb, ",\"why\":\"length field %u\",\"hex\":\"", len);
			hexput(&evb, sbuf, sbuf_n > 64 ? 64 : sbuf_n);
			vh_bput(&evb, "\"");
			ev_end(false);
			sbuf_n = 0;
			return;
		}
		if (sbuf_n < len)
			return;
		sent_pdu_event(sbuf, len);
		if (sbuf[1] == 10)
			got_error_report = true;
		memmove(sbuf, sbuf + len, sbuf_n - len);
		sbuf_n -= len;
	}
}
static void conn_reset(void)
{
	cbpark_countdown = 0;
	if (sbuf_n && !send_failed_on_conn) {
		ev_begin("sendbad");
		vh_bput(&evb, ",\"why\":\"incomplete PDU left on the connection\",\"hex\":\"");
		hexput(&evb, sbuf, sbuf_n > 64 ? 64 : sbuf_n);
		vh_bput(&evb, "\"");
		ev_end(false);
	}
	if (query_in_sbuf && exq_i < exq_n)
		exq_i++; /* a query abandoned half-written still consumes its directive (or the script would replay it for ever) */
	sbuf_n = 0;
	scalls_n = 0;
	query_in_sbuf = false;
	send_failed_on_conn = false;
	got_error_report = false;
	cur_items = NULL;
	cur_item_i = 0;
	fbuf_n = fbuf_off = 0;
	frame_pending = false;
}
static int t_open(void *s)
{
	(void)s;
	seam();
	flush_frame(false);
	const char *r = "ok";

	if (done)
		r = "fail";
	else if (openq_i < openq_n)
		r = vj_str(openq[openq_i++], "open", "ok");
	conn_reset();
	conn_open = !strcmp(r, "ok");
	if (!done || logging) {
		ev_begin("open");
		vh_bput(&evb, ",\"rc\":\"%s\",", conn_open ? "ok" : "fail");
		put_ivs(&evb);
		ev_end(true);
	}
	return conn_open ? TR_SUCCESS : TR_ERROR;
}
static void t_close(void *s)
{
	(void)s;
	seam();
	flush_frame(false);
	ev_begin("close");
	ev_end(false);
	conn_reset();
	conn_open = false;
}
static void t_free(struct tr_socket *s)
{
	(void)s;
}
static const char *t_ident(void *s)
{
	(void)s;
	return "sim";
}
static void tok_of_desc(struct vh_buf *b, const struct vj *r)
{
	const char *k = vj_str(r, "k", "4");

	if (k[0] == 'k') {
		struct spki_record e;

		memset(&e, 0, sizeof(e));
		e.asn = (uint32_t)strtoul(vj_str(r, "asn", "0"), NULL, 10);
		ski_bytes(vj_int(r, "ski", 0), e.ski);
		spki_bytes(vj_int(r, "spki", 0), e.spki);
		tok_key(b, &e);
	} else {
		struct pfx_record p;
		uint8_t x[16] = {0};

		memset(&p, 0, sizeof(p));
		p.asn = (uint32_t)strtoul(vj_str(r, "asn", "0"), NULL, 10);
		p.min_len = vj_int(r, "len_", 0);
		p.max_len = vj_int(r, "max", 0);
		if (k[0] == '4') {
			unhex(vj_str(r, "pfx", "00000000"), x, 4);
			p.prefix.ver = LRTR_IPV4;
			p.prefix.u.addr4.addr = get32(x);
		} else {
			unhex(vj_str(r, "pfx", ""), x, 16);
			p.prefix.ver = LRTR_IPV6;
			for (int i = 0; i < 4; i++)
				p.prefix.u.addr6.addr[i] = get32(x + 4 * i);
		}
		tok_pfx(b, &p);
	}
}
/* chooses the alternative of the next exchange directive that matches the query just sent */
static void begin_exchange(const uint8_t *q)
{
	struct vj *ex = vj_get(exq[exq_i++], "ex");
	struct vj *alts = vj_get(ex, "alts");
	bool is_reset = q[1] == 2;
	unsigned int sess = q[2] << 8 | q[3];

	qver = q[0];
	char sn[16];

	snprintf(sn, sizeof(sn), "%u", q[1] == 1 ? get32(q + 8) : 0);
	if (vj_get(ex, "mark")) {
		/* from here on the cache answers correctly; cdata = the data set the client must converge on */
		struct vj *cd = vj_get(vj_get(ex, "mark"), "cdata");

		ev_begin("mark");
		vh_bput(&evb, ",\"cdata\":[");
		for (int i = 0; cd && i < cd->n; i++) {
			vh_bput(&evb, "%s\"", i ? "," : "");
			tok_of_desc(&evb, cd->items[i]);
			vh_bput(&evb, "\"");
		}
		vh_bput(&evb, "]");
		ev_end(false);
	}
	cur_items = NULL;
	cur_item_i = 0;
	cur_chunk = getenv("VH_CHUNK") ? atoi(getenv("VH_CHUNK")) : (int)vj_int(ex, "chunk", 0);
	cbpark_countdown = vj_int(ex, "parkcb", 0);
	cur_keepopen = vj_int(ex, "keepopen", 0);
	for (int i = 0; alts && i < alts->n; i++) {
		struct vj *a = alts->items[i];
		const char *aq = vj_str(a, "q", "any");

		if (!strcmp(aq, "any") || (!strcmp(aq, "reset") && is_reset) ||
		    (!strcmp(aq, "serial") && !is_reset && (!vj_get(a, "sess") || vj_int(a, "sess", 0) == (long long)sess) &&
		     (!vj_get(a, "sn") || !strcmp(vj_str(a, "sn", ""), sn)))) {
			cur_items = vj_get(a, "items");
			break;
		}
	}
}
static int t_send(const void *s, const void *pdu, const size_t len, const time_t timeout)
{
	(void)s;
	seam();
	flush_frame(false);
	const uint8_t *p = pdu;

	if (sbuf_n > 0 && timeout <= 0 && conn_open && !done) {
		/* the client's send deadline has passed in the middle of a PDU: a transport asked to wait no time at all
		 * reports that it would block; the PDU stays incomplete and the client must give the connection up */
		if (scalls_n < 24) {
			scalls[scalls_n].now = (long)vnow;
			scalls[scalls_n].to = (long)timeout;
			scalls_n++;
		}
		ev_begin("sendfail");
		vh_bput(&evb, ",\"kind\":\"deadline\",\"partial\":%zu", sbuf_n);
		put_scalls(&evb);
		ev_end(false);
		send_failed_on_conn = true;
		if (query_in_sbuf && exq_i < exq_n)
			exq_i++; /* the directive is consumed by the query that could not be completed */
		query_in_sbuf = false;
		return TR_WOULDBLOCK;
	}
#ifdef VH_MSAN
	/* property C14: no byte handed to the transport stems from uninitialised memory */
	if (__msan_test_shadow(pdu, len) != -1) {
		ev_begin("sendbad");
		vh_bput(&evb, ",\"why\":\"uninitialised byte at offset %ld of a %zu byte write\"", (long)__msan_test_shadow(pdu, len), len);
		ev_end(false);
		fflush(out);
		fprintf(stderr, "UNINIT-SENT offset %ld len %zu type %u\n", (long)__msan_test_shadow(pdu, len), len, len > 1 ? p[1] : 255);
		_exit(97);
	}
#endif
	bool starts_query = sbuf_n == 0 && len >= 2 && (p[1] == 1 || p[1] == 2);
	const char *rc = "ok";
	int chunk = 0;

	if (starts_query) {
		if (exq_i >= exq_n) {
			/* script used up: fail the send so that the FSM reaches a cancellable sleep, and park there */
			if (!done) {
				done = true;
				logging = false;
			}
			return TR_ERROR;
		}
		struct vj *ex = vj_get(exq[exq_i], "ex");

		if (vj_get(ex, "stopstart")) {
			/* stop/start cycle requested before this query: fail the send, park at the next sleep */
			exq_i++;
			park_kind = 1;
			ev_begin("sendfail");
			vh_bput(&evb, ",\"kind\":\"err\",\"partial\":0");
			ev_end(false);
			send_failed_on_conn = true;
			return TR_ERROR;
		}
		rc = vj_str(ex, "sendrc", "ok");
		chunk = vj_int(ex, "sendchunk", 0);
		send_tick = vj_int(ex, "sendtick", 0);
	}
	if (done)
		return TR_ERROR;
	if (!conn_open || (starts_query && strcmp(rc, "ok"))) {
		if (starts_query)
			exq_i++; /* the directive is consumed by the failed query */
		ev_begin("sendfail");
		vh_bput(&evb, ",\"kind\":\"%s\",\"partial\":0", !conn_open ? "notopen" : rc);
		ev_end(false);
		send_failed_on_conn = true;
		return !strcmp(rc, "wouldblock") ? TR_WOULDBLOCK : TR_ERROR;
	}
	size_t n = len;

	if (chunk > 0 && (size_t)chunk < len)
		n = chunk;
	else if (sbuf_n > 0 && cur_chunk > 0 && (size_t)cur_chunk < len)
		n = cur_chunk;
	if (sbuf_n + n > sizeof(sbuf))
		n = sizeof(sbuf) - sbuf_n;
	bool was_query_start = starts_query;
	uint8_t qcopy[12] = {0};

	if (sbuf_n == 0)
		scalls_n = 0; /* a new PDU begins */
	if (scalls_n < 24) {
		scalls[scalls_n].now = (long)vnow;
		scalls[scalls_n].to = (long)timeout;
		scalls_n++;
	}

	memcpy(sbuf + sbuf_n, p, n);
	sbuf_n += n;
	if (was_query_start) {
		memcpy(qcopy, p, len < 12 ? len : 12);
		query_in_sbuf = true;
	}
	if (send_tick > 0 && n < len) {
		/* a congested link: time passes before the rest of the PDU can be written */
		vnow += send_tick;
		progress();
		ev_begin("tick");
		vh_bput(&evb, ",\"d\":%ld", send_tick);
		ev_end(false);
		send_tick = 0;
	}
	/* complete PDUs are reported (and a completed query selects the cache's reaction) */
	if (sbuf_n >= 8) {
		uint32_t l = get32(sbuf + 4);

		if (l >= 8 && sbuf_n >= l && (sbuf[1] == 1 || sbuf[1] == 2)) {
			uint8_t q[12];

			memcpy(q, sbuf, 12);
			if (chunk > 0)
				cur_chunk = chunk;
			drain_sbuf();
			query_in_sbuf = false;
			begin_exchange(q);
			progress();
			return (int)n;
		}
	}
	if (chunk > 0)
		cur_chunk = chunk;
	drain_sbuf();
	return (int)n;
}
/* next stream item: returns 1 frame loaded into fbuf, 0 nothing left, <0 transport result to return now */
static int next_item(time_t timeout)
{
	while (cur_items && cur_item_i < cur_items->n) {
		struct vj *it = cur_items->items[cur_item_i];

		if (vj_get(it, "tick")) {
			cur_item_i++;
			vnow += vj_int(it, "tick", 0);
			progress();
			ev_begin("tick");
			vh_bput(&evb, ",\"d\":%lld", vj_int(it, "tick", 0));
			ev_end(false);
			continue;
		}
		if (vj_get(it, "park")) {
			cur_item_i++;
			/* stop while the client is blocked in a receive (cancellation enabled there) */
			park_kind = 1;
			ev_begin("rpark");
			ev_end(true);
			fflush(out);
			park_until_go();
			return TR_ERROR; /* not reached when the thread is cancelled */
		}
		if (vj_get(it, "fault") && !vj_get(it, "at")) {
			const char *k = vj_str(it, "fault", "err");

			cur_item_i++;
			ev_begin("rfault");
			vh_bput(&evb, ",\"kind\":\"%s\",\"at\":\"hdr\",\"to\":%ld,\"adv\":%ld,", k, sat(timeout),
				!strcmp(k, "timeout") ? adv(timeout) : 0);
			put_ivs(&evb);
			if (!strcmp(k, "timeout")) {
				vnow += adv(timeout);
				if (timeout > 0)
					progress();
			}
			ev_end(false);
			return !strcmp(k, "timeout") ? TR_WOULDBLOCK : !strcmp(k, "closed") ? TR_CLOSED :
			       !strcmp(k, "intr")	 ? TR_INTR :
							   TR_ERROR;
		}
		if (vj_get(it, "f")) {
			cur_item_i++;
			fbuf_n = encode_frame(vj_get(it, "f"), fbuf);
			fbuf_off = 0;
			vh_breset(&fdesc);
			describe_frame(&fdesc, fbuf, fbuf_n);
			/* a fault may be attached to the frame: {"f":..., "cut":K, "cutkind":"err"} delivers K bytes, then fails */
			return 1;
		}
		cur_item_i++;
	}
	return 0;
}
static int cut_at = -1;
static const char *cut_kind;
static int t_recv(const void *s, void *buf, const size_t len, const time_t timeout)
{
	(void)s;
	seam();
	long call_now = (long)vnow;

	if (done) {
		park_until_go();
		return TR_ERROR;
	}
	if (!conn_open)
		return TR_ERROR;
	if (fbuf_off >= fbuf_n) {
		/* at a frame boundary */
		flush_frame(true);
		if (got_error_report && !cur_keepopen) {
			/* the simulated cache closes the connection once it has received an Error Report */
			ev_begin("rfault");
			vh_bput(&evb, ",\"kind\":\"closed\",\"at\":\"hdr\",\"to\":%ld,\"adv\":0,\"aftererr\":true,", sat(timeout));
			put_ivs(&evb);
			ev_end(false);
			return TR_CLOSED;
		}
		int r = next_item(timeout);

		if (r < 0)
			return r;
		if (r == 0) {
			/* nothing more to say: the receive times out */
			ev_begin("rfault");
			vh_bput(&evb, ",\"kind\":\"timeout\",\"at\":\"hdr\",\"to\":%ld,\"adv\":%ld,\"idle\":true,", sat(timeout),
				adv(timeout));
			put_ivs(&evb);
			vnow += adv(timeout);
			if (timeout > 0)
				progress();
			ev_end(false);
			return TR_WOULDBLOCK;
		}
		first_to = (long)timeout;
		cut_at = -1;
		rcalls_n = 0;
		struct vj *it = cur_items->items[cur_item_i - 1];

		cur_ctick = getenv("VH_CHUNK") ? 0 : vj_int(it, "ctick", 0); /* imposed chunkings (C04) compare outcomes: no time may hang on the chunking */

		if (vj_get(it, "cut")) {
			cut_at = vj_int(it, "cut", 0);
			cut_kind = vj_str(it, "cutkind", "err");
		}
	}
	if (rcalls_n < 24) {
		rcalls[rcalls_n].now = call_now; /* the time at which the client made the call (ticks scripted before the frame pass inside it) */
		rcalls[rcalls_n].to = (long)timeout;
		rcalls[rcalls_n].off = fbuf_off;
		rcalls_n++;
	}
	if (fbuf_off > 0 && timeout <= 0 && !getenv("VH_CHUNK") && !(cut_at >= 0 && (int)fbuf_off >= cut_at)) {
		/* the client's deadline for this header / body has passed while the frame was trickling in: a transport
		 * asked to wait no time at all reports a timeout (not under an imposed chunking, where C04 compares the
		 * outcomes of two chunkings and no outcome may hang on time) */
		bool in_hdr = fbuf_off < 8;

		frame_pending = false;
		ev_begin("rfault");
		vh_bput(&evb, ",\"kind\":\"timeout\",\"at\":\"%s\",\"to\":%ld,\"adv\":0,\"off\":%zu,\"f\":%s,", in_hdr ? "hdr" : "body",
			sat(timeout), fbuf_off, fdesc.p);
		put_rcalls(&evb);
		put_ivs(&evb);
		ev_end(false);
		fbuf_n = fbuf_off = 0;
		cut_at = -1;
		rcalls_n = 0;
		return TR_WOULDBLOCK;
	}
	if (cut_at >= 0 && (int)fbuf_off >= cut_at) {
		/* transport fault in the middle of a frame */
		bool in_hdr = fbuf_off < 8;

		frame_pending = false; /* the frame never arrives completely: it is reported with the fault only */
		ev_begin("rfault");
		vh_bput(&evb, ",\"kind\":\"%s\",\"at\":\"%s\",\"to\":%ld,\"adv\":%ld,\"off\":%zu,\"f\":%s,", cut_kind,
			in_hdr ? "hdr" : "body", sat(timeout), !strcmp(cut_kind, "timeout") ? adv(timeout) : 0, fbuf_off, fdesc.p);
		put_ivs(&evb);
		if (!strcmp(cut_kind, "timeout")) {
			vnow += adv(timeout);
			progress();
		}
		ev_end(false);
		fbuf_n = fbuf_off = 0;
		cut_at = -1;
		return !strcmp(cut_kind, "timeout") ? TR_WOULDBLOCK : !strcmp(cut_kind, "closed") ? TR_CLOSED : TR_ERROR;
	}
	size_t n = fbuf_n - fbuf_off;

	if (n > len)
		n = len;
	if (cur_chunk > 0 && n > (size_t)cur_chunk)
		n = cur_chunk;
	if (cur_chunk < 0 && n > 1)
		n = 1 + vh_rn(n);
	if (cut_at >= 0 && fbuf_off + n > (size_t)cut_at)
		n = cut_at - fbuf_off;
	if (n == 0)
		n = 1;
	memcpy(buf, fbuf + fbuf_off, n);
	fbuf_off += n;
	progress();
	if (cur_ctick > 0 && fbuf_off < fbuf_n)
		vnow += cur_ctick; /* the rest of the frame takes its time */
	if (fbuf_off >= 8 || fbuf_off >= fbuf_n)
		frame_pending = true;
	if (fbuf_off >= fbuf_n)
		flush_frame(true);
	return (int)n;
}

/* ------------------------------------------------------------------ callbacks */
static void maybe_park_in_cb(void)
{
	if (cbpark_countdown > 0 && pthread_equal(pthread_self(), rsock.thread_id) && --cbpark_countdown == 0 && !done) {
		/* the client is in the middle of applying a response (cancellation disabled): let the user
		 * call rtr_stop() now; the stop's own SHUTDOWN state callback releases this thread again */
		ev_begin("cbpark");
		ev_end(false);
		park_kind = 2;
		parked_in_cb = true;
		sem_post(&sem_done);
		sem_wait(&sem_cb);
	}
}
static void state_cb(const struct rtr_socket *s, const enum rtr_socket_state st, void *a, void *b)
{
	(void)s;
	(void)a;
	(void)b;
	if (!pthread_equal(pthread_self(), rsock.thread_id) && st == RTR_SHUTDOWN) {
		/* called from the stopping thread: do not touch the FSM thread's receive bookkeeping */
	} else {
		flush_frame(false);
	}
	const char *n = (st <= RTR_SHUTDOWN) ? rtr_state_to_str(st) : "RTR_CLOSED";

	ev_begin("state");
	vh_bput(&evb, ",\"s\":\"%s\",", n ? n : "?");
	put_ivs(&evb);
	/* no table projection while the client is parked inside a table callback: it may hold the table lock */
	ev_end(!(st == RTR_SHUTDOWN && parked_in_cb));
	if (st == RTR_SHUTDOWN && parked_in_cb) {
		/* rtr_stop() has announced the shutdown: let the client finish the step it is in */
		parked_in_cb = false;
		sem_post(&sem_cb);
	}
}
static void pfx_cb(struct pfx_table *t, const struct pfx_record r, const bool added)
{
	(void)t;
	flush_frame(false);
	ev_begin("pfxcb");
	vh_bput(&evb, ",\"add\":%s,\"src\":\"%s\",\"r\":\"", added ? "true" : "false", r.socket == &rsock ? "me" : "other");
	tok_pfx(&evb, &r);
	vh_bput(&evb, "\"");
	ev_end(false);
	maybe_park_in_cb();
}
static void spki_cb(struct spki_table *t, const struct spki_record r, const bool added)
{
	(void)t;
	flush_frame(false);
	ev_begin("spkicb");
	vh_bput(&evb, ",\"add\":%s,\"src\":\"%s\",\"r\":\"", added ? "true" : "false", r.socket == &rsock ? "me" : "other");
	tok_key(&evb, &r);
	vh_bput(&evb, "\"");
	ev_end(false);
	maybe_park_in_cb();
}

/* ------------------------------------------------------------------ executions */
static enum rtr_interval_mode mode_of(const char *s)
{
	if (!strcmp(s, "ignore_any"))
		return RTR_INTERVAL_MODE_IGNORE_ANY;
	if (!strcmp(s, "accept_any"))
		return RTR_INTERVAL_MODE_ACCEPT_ANY;
	if (!strcmp(s, "ignore_on_failure"))
		return RTR_INTERVAL_MODE_IGNORE_ON_FAILURE;
	return RTR_INTERVAL_MODE_DEFAULT_MIN_MAX;
}
static void add_other(const struct vj *r)
{
	const char *k = vj_str(r, "k", "4");

	if (k[0] == 'k') {
		struct spki_record e;

		memset(&e, 0, sizeof(e));
		e.asn = (uint32_t)strtoul(vj_str(r, "asn", "0"), NULL, 10);
		ski_bytes(vj_int(r, "ski", 0), e.ski);
		spki_bytes(vj_int(r, "spki", 0), e.spki);
		e.socket = &other_sock;
		spki_table_add_entry(&spkit, &e);
	} else {
		struct pfx_record p;
		uint8_t b[16] = {0};

		memset(&p, 0, sizeof(p));
		p.asn = (uint32_t)strtoul(vj_str(r, "asn", "0"), NULL, 10);
		p.min_len = vj_int(r, "len_", 0);
		p.max_len = vj_int(r, "max", 0);
		p.socket = &other_sock;
		if (k[0] == '4') {
			unhex(vj_str(r, "pfx", "00000000"), b, 4);
			p.prefix.ver = LRTR_IPV4;
			p.prefix.u.addr4.addr = get32(b);
		} else {
			unhex(vj_str(r, "pfx", ""), b, 16);
			p.prefix.ver = LRTR_IPV6;
			for (int i = 0; i < 4; i++)
				p.prefix.u.addr6.addr[i] = get32(b + 4 * i);
		}
		pfx_table_add(&pfxt, &p);
	}
}
static bool exec_active;
static void begin_execution(const struct vj *cfg)
{
	openq_n = openq_i = exq_n = exq_i = 0;
	done = false;
	logging = true;
	park_kind = 0;
	hang_reported = false;
	seam_calls_without_progress = 0;
	vnow = 1000 + vj_int(cfg, "t0", 0);
	conn_open = false;
	conn_reset();
	pfx_table_init(&pfxt, NULL);
	spki_table_init(&spkit, NULL);
	memset(&rsock, 0, sizeof(rsock));
	struct vj *oth = vj_get(cfg, "others");

	for (int i = 0; oth && i < oth->n; i++)
		add_other(oth->items[i]);
	/* callbacks are installed after the other source's records are in place */
	pfxt.update_fp = pfx_cb;
	spkit.update_fp = spki_cb;
	tr.socket = NULL;
	tr.open_fp = t_open;
	tr.close_fp = t_close;
	tr.free_fp = t_free;
	tr.send_fp = t_send;
	tr.recv_fp = t_recv;
	tr.ident_fp = t_ident;
	int rc = rtr_init(&rsock, &tr, &pfxt, &spkit, (unsigned int)strtoul(vj_str(cfg, "refresh", "3600"), NULL, 10),
			  (unsigned int)strtoul(vj_str(cfg, "expire", "7200"), NULL, 10),
			  (unsigned int)strtoul(vj_str(cfg, "retry", "600"), NULL, 10), mode_of(vj_str(cfg, "mode", "min_max")),
			  state_cb, NULL, NULL);
	ev_begin("init");
	vh_bput(&evb, ",\"rc\":\"%s\",\"mode\":\"%s\",\"cfg\":{", rc == RTR_SUCCESS ? "ok" : rc == RTR_INVALID_PARAM ? "invalid" : "err",
		vj_str(cfg, "mode", "min_max"));
	put_iv(&evb, "r", (uint32_t)strtoul(vj_str(cfg, "refresh", "3600"), NULL, 10));
	vh_bput(&evb, ",");
	put_iv(&evb, "t", (uint32_t)strtoul(vj_str(cfg, "retry", "600"), NULL, 10));
	vh_bput(&evb, ",");
	put_iv(&evb, "e", (uint32_t)strtoul(vj_str(cfg, "expire", "7200"), NULL, 10));
	vh_bput(&evb, "},");
	if (rc == RTR_SUCCESS)
		put_ivs(&evb);
	else
		vh_bput(&evb, "\"noiv\":true");
	ev_end(true);
	exec_active = rc == RTR_SUCCESS;
}
static void run_execution(void)
{
	if (exec_active) {
		ev_begin("start");
		ev_end(true);
		rtr_start(&rsock);
		for (;;) {
			sem_wait(&sem_done); /* the FSM thread is parked (end of script or stop/start request) */
			bool finished = done;

			logging = true;
			rtr_stop(&rsock);
			ev_begin("stop");
			ev_end(true);
			if (finished)
				break;
			park_kind = 0;
			conn_open = false;
			conn_reset();
			ev_begin("start");
			ev_end(true);
			rtr_start(&rsock);
		}
	}
	/* tear down */
	pfxt.update_fp = NULL;
	spkit.update_fp = NULL;
	pfx_table_free(&pfxt);
	spki_table_free_without_notify(&spkit);
	fputs("{\"e\":\"reset\"}\n", out);
	fflush(out);
	exec_active = false;
}

int main(int argc, char **argv)
{
	if (argc != 3)
		return 2;
	FILE *f = fopen(argv[1], "r");

	out = fopen(argv[2], "w");
	if (!f || !out)
		return 2;
	if (getenv("VH_FAIL_AT") || getenv("VH_COUNT_ALLOCS")) {
		if (getenv("VH_FAIL_AT"))
			fail_at = atol(getenv("VH_FAIL_AT"));
		lrtr_set_alloc_functions(v_malloc, v_realloc, v_free);
	}
	setvbuf(out, NULL, _IOFBF, 1 << 20);
	alarm(getenv("VH_ALARM") ? atoi(getenv("VH_ALARM")) : 120); /* real-time safety net */
	sem_init(&sem_done, 0, 0);
	sem_init(&sem_go, 0, 0);
	sem_init(&sem_cb, 0, 0);
	vh_seed(12345);
	char *lineb = NULL;
	size_t cap = 0;

	while (getline(&lineb, &cap, f) > 0) {
		struct vj *o = vj_parse(lineb);

		if (vj_get(o, "new")) {
			injected_now = false;
			begin_execution(vj_get(o, "new"));
		} else if (vj_get(o, "open")) {
			if (openq_n < QMAX)
				openq[openq_n++] = o;
		} else if (vj_get(o, "ex")) {
			if (exq_n < QMAX)
				exq[exq_n++] = o;
		} else if (vj_get(o, "run")) {
			run_execution();
		}
	}
	fclose(out);
	if (getenv("VH_COUNT_ALLOCS") || getenv("VH_FAIL_AT"))
		printf("ALLOCS %ld LIVE %ld MISUSE %d\n", alloc_count, live_blocks, alloc_misuse);
	return 0;
}
