/* C19 harness: address text conversion.  Input: ndjson lines
 *   {"op":"parse","text":"..."[,"exp":[w1..w8]]}    library parse (twice, with differently filled stack) + inet_pton
 *   {"op":"fmt","fam":4|6,"w":[...]}                 to_str into canaried buffers of every length 0..50, parse back
 * Output: one ndjson event per line for spec/IpTextTrace.tla. */
#include "rtrlib/lib/ip.h"
#include "vh.h"
#include <arpa/inet.h>
#if defined(__has_feature)
#if __has_feature(memory_sanitizer)
#include <sanitizer/msan_interface.h>
#define VH_MSAN 1
#endif
#endif

static volatile unsigned char sink;
__attribute__((noinline)) static void dirty_stack(unsigned char pat)
{
	volatile unsigned char buf[8192];

	for (unsigned int i = 0; i < sizeof(buf); i++)
		buf[i] = pat;
	sink = buf[pat % sizeof(buf)];
}
__attribute__((noinline)) static int do_parse(const char *text, struct lrtr_ip_addr *a)
{
	return lrtr_ip_str_to_addr(text, a);
}
static void put_words(struct vh_buf *b, const struct lrtr_ip_addr *a)
{
	if (a->ver == LRTR_IPV4)
		vh_bput(b, "[%u,%u]", a->u.addr4.addr >> 16, a->u.addr4.addr & 0xffff);
	else
		vh_bput(b, "[%u,%u,%u,%u,%u,%u,%u,%u]", a->u.addr6.addr[0] >> 16, a->u.addr6.addr[0] & 0xffff, a->u.addr6.addr[1] >> 16,
			a->u.addr6.addr[1] & 0xffff, a->u.addr6.addr[2] >> 16, a->u.addr6.addr[2] & 0xffff, a->u.addr6.addr[3] >> 16,
			a->u.addr6.addr[3] & 0xffff);
}
static void jstr(struct vh_buf *b, const char *s)
{
	vh_bput(b, "\"");
	for (; *s; s++) {
		if (*s == '"' || *s == '\\')
			vh_bput(b, "\\%c", *s);
		else if ((unsigned char)*s < 32 || (unsigned char)*s > 126)
			vh_bput(b, "\\u%04x", (unsigned char)*s);
		else
			vh_bput(b, "%c", *s);
	}
	vh_bput(b, "\"");
}
static char *unescape(const char *s)
{
	char *o = malloc(strlen(s) + 1), *p = o;

	for (; *s; s++) {
		if (*s == '\\' && s[1] == 'u') {
			unsigned int v;

			sscanf(s + 2, "%4x", &v);
			*p++ = (char)v;
			s += 5;
		} else if (*s == '\\' && s[1]) {
			*p++ = *++s;
		} else {
			*p++ = *s;
		}
	}
	*p = 0;
	return o;
}
int main(int argc, char **argv)
{
	if (argc != 3)
		return 2;
	FILE *f = fopen(argv[1], "r"), *out = fopen(argv[2], "w");
	char *lineb = NULL;
	size_t cap = 0;
	struct vh_buf b = {0};

	while (getline(&lineb, &cap, f) > 0) {
		struct vj *o = vj_parse(lineb);
		const char *op = vj_str(o, "op", "");

		vh_breset(&b);
		if (!strcmp(op, "parse")) {
			char *text = unescape(vj_str(o, "text", ""));
			struct lrtr_ip_addr a1, a2;
			bool v6 = strchr(text, ':') != NULL;

			memset(&a1, 0x5a, sizeof(a1));
			memset(&a2, 0xa5, sizeof(a2));
#ifdef VH_MSAN
			__msan_poison(&a1, sizeof(a1));
			__msan_poison(&a2, sizeof(a2));
#endif
			dirty_stack(0x00);
			int rc1 = do_parse(text, &a1);

			dirty_stack(0xff);
			int rc2 = do_parse(text, &a2);
			unsigned char pt[16] = {0};
			int prc = inet_pton(v6 ? AF_INET6 : AF_INET, text, pt);

			vh_bput(&b, "{\"e\":\"parse\",\"text\":");
			jstr(&b, text);
			int uninit = 0;
#ifdef VH_MSAN
			/* MemorySanitizer build: does an accepted result contain bytes that were never written? */
			if (rc1 == 0 && __msan_test_shadow(v6 ? (void *)&a1.u.addr6 : (void *)&a1.u.addr4, v6 ? 16 : 4) != -1)
				uninit = 1;
			__msan_unpoison(&a1, sizeof(a1));
			__msan_unpoison(&a2, sizeof(a2));
#endif
			vh_bput(&b, ",\"uninit\":%d,\"rc1\":%d,\"rc2\":%d,\"w1\":", uninit, rc1 == 0, rc2 == 0);
			a1.ver = a2.ver = v6 ? LRTR_IPV6 : LRTR_IPV4;
			if (rc1 == 0)
				put_words(&b, &a1);
			else
				vh_bput(&b, "[]");
			vh_bput(&b, ",\"w2\":");
			if (rc2 == 0)
				put_words(&b, &a2);
			else
				vh_bput(&b, "[]");
			vh_bput(&b, ",\"pton\":%d,\"pw\":[", prc == 1);
			if (prc == 1)
				for (int i = 0; i < (v6 ? 8 : 2); i++)
					vh_bput(&b, "%s%u", i ? "," : "", pt[2 * i] << 8 | pt[2 * i + 1]);
			vh_bput(&b, "]");
			struct vj *exp = vj_get(o, "exp");

			if (exp) {
				vh_bput(&b, ",\"exp\":[");
				for (int i = 0; i < exp->n; i++)
					vh_bput(&b, "%s%lld", i ? "," : "", exp->items[i]->num);
				vh_bput(&b, "]");
			}
			vh_bput(&b, "}\n");
			free(text);
		} else if (!strcmp(op, "fmt")) {
			struct vj *w = vj_get(o, "w");
			struct lrtr_ip_addr a, back;
			int fam = vj_int(o, "fam", 6);

			memset(&a, 0, sizeof(a));
			if (fam == 4) {
				a.ver = LRTR_IPV4;
				a.u.addr4.addr = (uint32_t)w->items[0]->num << 16 | (uint32_t)w->items[1]->num;
			} else {
				a.ver = LRTR_IPV6;
				for (int i = 0; i < 4; i++)
					a.u.addr6.addr[i] = (uint32_t)w->items[2 * i]->num << 16 | (uint32_t)w->items[2 * i + 1]->num;
			}
			/* bounded writes: every buffer length 0..50, canary after the buffer */
			int overrun = -1, unterminated = -1, okfrom = -1;
			char full[128] = "";

			for (int len = 0; len <= 50; len++) {
				char buf[128];

				memset(buf, 0x7e, sizeof(buf));
				int rc = lrtr_ip_addr_to_str(&a, buf, len);

				for (int i = len; i < (int)sizeof(buf); i++)
					if (buf[i] != 0x7e && overrun < 0)
						overrun = len;
				if (rc == 0 && len > 0) {
					if (!memchr(buf, 0, len)) {
						if (unterminated < 0)
							unterminated = len;
					} else if (okfrom < 0) {
						okfrom = len;
					}
					if (len == 50)
						strcpy(full, buf);
				}
			}
			unsigned char pt[16] = {0};
			int brc = lrtr_ip_str_to_addr(full, &back);
			int prc = inet_pton(fam == 6 ? AF_INET6 : AF_INET, full, pt);

			vh_bput(&b, "{\"e\":\"fmt\",\"fam\":%d,\"w\":", fam);
			put_words(&b, &a);
			vh_bput(&b, ",\"text\":");
			jstr(&b, full);
			vh_bput(&b, ",\"overrun\":%d,\"unterminated\":%d,\"back\":%d,\"bw\":", overrun, unterminated, brc == 0);
			back.ver = a.ver;
			if (brc == 0)
				put_words(&b, &back);
			else
				vh_bput(&b, "[]");
			vh_bput(&b, ",\"pton\":%d,\"pw\":[", prc == 1);
			if (prc == 1)
				for (int i = 0; i < (fam == 6 ? 8 : 2); i++)
					vh_bput(&b, "%s%u", i ? "," : "", pt[2 * i] << 8 | pt[2 * i + 1]);
			vh_bput(&b, "]}\n");
		} else {
			continue;
		}
		fputs(b.p, out);
	}
	fclose(out);
	return 0;
}
