/*
 * Bit helpers of rtrlib/lib (lrtr_ip_addr_get_bits / is_zero / equal) called on sample addresses for every (from, n);
 * judged by spec/IpBitsTrace.tla.     ipbits_harness <seed> <addresses> <out.ndjson>
 */
#include "rtrlib/lib/ip_private.h"
#include "vh.h"

static FILE *out;
static void put_words(const struct lrtr_ip_addr *a)
{
	if (a->ver == LRTR_IPV4) {
		fprintf(out, "[%u,%u]", a->u.addr4.addr >> 16, a->u.addr4.addr & 0xffff);
	} else {
		fprintf(out, "[");
		for (int i = 0; i < 4; i++)
			fprintf(out, "%s%u,%u", i ? "," : "", a->u.addr6.addr[i] >> 16, a->u.addr6.addr[i] & 0xffff);
		fprintf(out, "]");
	}
}
static void rnd_addr(struct lrtr_ip_addr *a, int fam, int style)
{
	memset(a, 0, sizeof(*a));
	a->ver = fam == 4 ? LRTR_IPV4 : LRTR_IPV6;
	for (int i = 0; i < (fam == 4 ? 1 : 4); i++) {
		uint32_t v = style == 0 ? vh_r32() : style == 1 ? 0xffffffffu : style == 2 ? 0x80000001u : vh_r32() & vh_r32();

		if (fam == 4)
			a->u.addr4.addr = v;
		else
			a->u.addr6.addr[i] = v;
	}
}
int main(int argc, char **argv)
{
	if (argc != 4)
		return 2;
	vh_seed(strtoull(argv[1], NULL, 10));
	int naddr = atoi(argv[2]);

	out = fopen(argv[3], "w");
	if (!out)
		return 2;
	for (int k = 0; k < naddr; k++) {
		int fam = k % 3 == 0 ? 4 : 6;
		unsigned int maxb = fam == 4 ? 32 : 128;
		struct lrtr_ip_addr a, b;

		rnd_addr(&a, fam, k % 4);
		for (unsigned int from = 0; from < maxb; from++)
			for (unsigned int n = 1; from + n <= maxb; n += (fam == 6 && k > 2) ? 1 + vh_rn(5) : 1) {
				struct lrtr_ip_addr r = lrtr_ip_addr_get_bits(&a, from, n);

				fprintf(out, "{\"e\":\"getbits\",\"w\":");
				put_words(&a);
				fprintf(out, ",\"from\":%u,\"n\":%u,\"res\":", from, n);
				put_words(&r);
				fprintf(out, "}\n");
				fprintf(out, "{\"e\":\"iszero\",\"w\":");
				put_words(&r);
				fprintf(out, ",\"res\":%s}\n", lrtr_ip_addr_is_zero(r) ? "true" : "false");
			}
		/* equality: the same address, one bit flipped, the same pattern flipped in two words */
		for (int v = 0; v < 12; v++) {
			b = a;
			uint32_t pat = 1u << vh_rn(32);

			if (fam == 4) {
				if (v % 3 == 1)
					b.u.addr4.addr ^= pat;
			} else if (v % 3 == 1) {
				b.u.addr6.addr[vh_rn(4)] ^= pat;
			} else if (v % 3 == 2) {
				int i = vh_rn(4), j = (i + 1 + vh_rn(3)) % 4;

				b.u.addr6.addr[i] ^= pat;
				b.u.addr6.addr[j] ^= pat;
			}
			fprintf(out, "{\"e\":\"equal\",\"a\":");
			put_words(&a);
			fprintf(out, ",\"b\":");
			put_words(&b);
			fprintf(out, ",\"res\":%s}\n", lrtr_ip_addr_equal(a, b) ? "true" : "false");
		}
	}
	fclose(out);
	return 0;
}
