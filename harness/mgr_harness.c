/*
 * Group-manager harness (C15): drives the REAL rtr_mgr_init / rtr_mgr_start / rtr_mgr_cb /
 * rtr_mgr_add_group / rtr_mgr_remove_group with exact sequences of socket state changes.
 * rtr_start / rtr_stop are link-wrapped by stubs that record the call and reproduce the state
 * effects of the real functions (no threads); socket state changes are injected through the
 * real rtr_change_socket_state(), which invokes the manager's callback.
 *
 *   mgr_harness <script.ndjson> <out.ndjson>
 * script lines:
 *   {"op":"init","groups":[{"pref":P,"n":N},...]}     (n may be 0, prefs may repeat, list may be empty)
 *   {"op":"start"} {"op":"sock","g":P,"i":I,"st":"ESTABLISHED"} {"op":"expire","g":P,"i":I}
 *   {"op":"add","pref":P,"n":N} {"op":"rm","pref":P} {"op":"free"}
 * every output event carries the observable result: return code, group statuses in
 * rtr_mgr_for_each_group order, rtr_mgr_get_first_group, status callbacks, sockets started/stopped/running.
 */
#include "rtrlib/rtr/packets_private.h"
#include "rtrlib/rtr/rtr_private.h"
#include "rtrlib/rtr_mgr_private.h"
#include "rtrlib/transport/transport.h"
#include "vh.h"

#define MAXG 8
#define MAXS 2
struct gslot {
	int pref;
	int n;
	bool used;
	struct rtr_socket socks[MAXS];
	struct rtr_socket *ptrs[MAXS];
	struct tr_socket trs[MAXS];
};
static struct gslot slots[64];
static int nslots;
static struct rtr_mgr_config *conf;
static FILE *out;
static struct vh_buf reports, started, stopped;
static int nrep, nstart, nstop;

static struct gslot *slot_of_sock(const struct rtr_socket *s, int *idx)
{
	for (int k = 0; k < nslots; k++)
		for (int i = 0; i < MAXS; i++)
			if (s == &slots[k].socks[i]) {
				*idx = i + 1;
				return &slots[k];
			}
	return NULL;
}
static const char *stname(enum rtr_mgr_status st)
{
	switch (st) {
	case RTR_MGR_CLOSED:
		return "CLOSED";
	case RTR_MGR_CONNECTING:
		return "CONNECTING";
	case RTR_MGR_ESTABLISHED:
		return "ESTABLISHED";
	case RTR_MGR_ERROR:
		return "ERROR";
	}
	return "?";
}
static const char *ssname(enum rtr_socket_state st)
{
	static const char *n[] = {"CONNECTING", "ESTABLISHED", "RESET", "SYNC", "FAST_RECONNECT", "ERR_NODATA", "ERR_NOINCR",
				  "ERR_FATAL", "ERR_TRANSPORT", "SHUTDOWN", "CLOSED"};
	return st <= RTR_CLOSED ? n[st] : "?";
}
static int ssval(const char *s)
{
	for (int i = 0; i <= RTR_CLOSED; i++)
		if (!strcmp(s, ssname(i)))
			return i;
	return -1;
}
/* ---- stubs for the socket layer (state effects of rtr.c's rtr_start / rtr_stop) */
int __wrap_rtr_start(struct rtr_socket *s)
{
	int idx;
	struct gslot *g = slot_of_sock(s, &idx);

	if (s->thread_id)
		return RTR_ERROR;
	s->thread_id = 1;
	if (s->state != RTR_SHUTDOWN)
		s->state = RTR_CONNECTING; /* rtr_fsm_start sets the state without a callback */
	vh_bput(&started, "%s[%d,%d]", nstart++ ? "," : "", g ? g->pref : -1, idx);
	return RTR_SUCCESS;
}
void __wrap_rtr_stop(struct rtr_socket *s)
{
	int idx;
	struct gslot *g = slot_of_sock(s, &idx);

	rtr_change_socket_state(s, RTR_SHUTDOWN);
	if (s->thread_id != 0) {
		s->request_session_id = true;
		s->serial_number = 0;
		s->last_update = 0;
		s->thread_id = 0;
		s->state = RTR_CLOSED;
		vh_bput(&stopped, "%s[%d,%d]", nstop++ ? "," : "", g ? g->pref : -1, idx);
	}
}
static void tr_free_stub(struct tr_socket *t)
{
	(void)t;
}
static void status_cb(const struct rtr_mgr_group *g, enum rtr_mgr_status st, const struct rtr_socket *s, void *d)
{
	(void)s;
	(void)d;
	vh_bput(&reports, "%s[%d,\"%s\"]", nrep++ ? "," : "", g->preference, stname(st));
}
static struct vh_buf gbuf;
static int ng;
static void group_cb(const struct rtr_mgr_group *g, void *d)
{
	(void)d;
	vh_bput(&gbuf, "%s[%d,\"%s\"]", ng++ ? "," : "", g->preference, stname(g->status));
}
static struct gslot *new_slot(int pref, int n)
{
	struct gslot *g = &slots[nslots++];

	memset(g, 0, sizeof(*g));
	g->pref = pref;
	g->n = n;
	g->used = true;
	for (int i = 0; i < MAXS; i++) {
		g->ptrs[i] = &g->socks[i];
		g->trs[i].free_fp = tr_free_stub;
		g->socks[i].tr_socket = &g->trs[i];
	}
	return g;
}
static struct gslot *find_slot(int pref)
{
	for (int k = nslots - 1; k >= 0; k--)
		if (slots[k].used && slots[k].pref == pref)
			return &slots[k];
	return NULL;
}
static void begin(void)
{
	vh_breset(&reports);
	vh_breset(&started);
	vh_breset(&stopped);
	nrep = nstart = nstop = 0;
}
static void observe(struct vh_buf *b)
{
	vh_breset(&gbuf);
	ng = 0;
	if (conf) {
		rtr_mgr_for_each_group(conf, group_cb, NULL);
		vh_bput(b, ",\"gst\":[%s],\"first\":%d,\"insync\":%s", gbuf.p ? gbuf.p : "", rtr_mgr_get_first_group(conf)->preference,
			rtr_mgr_conf_in_sync(conf) ? "true" : "false");
	}
	vh_bput(b, ",\"reports\":[%s],\"started\":[%s],\"stopped\":[%s],\"run\":[", reports.p ? reports.p : "",
		started.p ? started.p : "", stopped.p ? stopped.p : "");
	int k2 = 0;

	for (int k = 0; k < nslots; k++)
		for (int i = 0; i < slots[k].n && i < MAXS; i++)
			if (slots[k].used && slots[k].socks[i].thread_id)
				vh_bput(b, "%s[%d,%d]", k2++ ? "," : "", slots[k].pref, i + 1);
	vh_bput(b, "]}\n");
}

int main(int argc, char **argv)
{
	if (argc != 3)
		return 2;
	FILE *f = fopen(argv[1], "r");

	out = fopen(argv[2], "w");
	if (!f || !out)
		return 2;
	char *lineb = NULL;
	size_t cap = 0;
	struct vh_buf ev = {0};

	while (getline(&lineb, &cap, f) > 0) {
		struct vj *o = vj_parse(lineb);
		const char *op = vj_str(o, "op", "");

		vh_breset(&ev);
		begin();
		if (!strcmp(op, "init")) {
			struct vj *gs = vj_get(o, "groups");
			struct rtr_mgr_group groups[MAXG];
			int n = gs ? gs->n : 0;

			if (conf) {
				rtr_mgr_free(conf);
				conf = NULL;
			}
			nslots = 0;
			vh_bput(&ev, "{\"e\":\"init\",\"groups\":[");
			for (int i = 0; i < n && i < MAXG; i++) {
				int pref = vj_int(gs->items[i], "pref", 0), ns = vj_int(gs->items[i], "n", 1);
				struct gslot *g = new_slot(pref, ns);

				groups[i].sockets = g->ptrs;
				groups[i].sockets_len = ns;
				groups[i].preference = pref;
				groups[i].status = RTR_MGR_CLOSED;
				vh_bput(&ev, "%s{\"pref\":%d,\"n\":%d}", i ? "," : "", pref, ns);
			}
			fprintf(out, "{\"e\":\"pre\",\"what\":\"init\"}\n");
			fflush(out);
			int rc = rtr_mgr_init(&conf, groups, n, 3600, 7200, 600, NULL, NULL, status_cb, NULL);

			vh_bput(&ev, "],\"rc\":\"%s\",\"confnull\":%s", rc == RTR_SUCCESS ? "ok" : "err", conf ? "false" : "true");
			if (rc != RTR_SUCCESS)
				conf = NULL;
			observe(&ev);
		} else if (!conf) {
			continue;
		} else if (!strcmp(op, "start")) {
			int rc = rtr_mgr_start(conf);

			vh_bput(&ev, "{\"e\":\"start\",\"rc\":\"%s\"", rc == RTR_SUCCESS ? "ok" : "err");
			observe(&ev);
		} else if (!strcmp(op, "sock") || !strcmp(op, "expire")) {
			struct gslot *g = find_slot(vj_int(o, "g", 0));
			int i = vj_int(o, "i", 1);

			if (!g || i > g->n || !g->socks[i - 1].thread_id)
				continue; /* only running sockets change state */
			struct rtr_socket *s = &g->socks[i - 1];

			if (!strcmp(op, "expire")) {
				if (s->state != RTR_CONNECTING)
					continue; /* data expires when the socket (re)connects */
				s->last_update = 0;
				vh_bput(&ev, "{\"e\":\"expire\",\"g\":%d,\"i\":%d", g->pref, i);
			} else {
				int st = ssval(vj_str(o, "st", "CONNECTING"));

				if (st == RTR_ESTABLISHED)
					s->last_update = 12345; /* rtr_sync sets the timestamp before the state change */
				rtr_change_socket_state(s, st);
				vh_bput(&ev, "{\"e\":\"sock\",\"g\":%d,\"i\":%d,\"st\":\"%s\"", g->pref, i, ssname(st));
			}
			observe(&ev);
		} else if (!strcmp(op, "add")) {
			int pref = vj_int(o, "pref", 0), ns = vj_int(o, "n", 1);
			struct gslot *g = new_slot(pref, ns);
			struct rtr_mgr_group grp = {.sockets = g->ptrs, .sockets_len = ns, .preference = pref, .status = RTR_MGR_CLOSED};
			int rc = rtr_mgr_add_group(conf, &grp);

			if (rc != RTR_SUCCESS) {
				g->used = false;
				nslots--;
			}
			vh_bput(&ev, "{\"e\":\"add\",\"pref\":%d,\"n\":%d,\"rc\":\"%s\"", pref, ns,
				rc == RTR_SUCCESS ? "ok" : rc == RTR_INVALID_PARAM ? "invalid" : "err");
			observe(&ev);
		} else if (!strcmp(op, "rm")) {
			int pref = vj_int(o, "pref", 0);
			struct gslot *g = find_slot(pref);
			int rc = rtr_mgr_remove_group(conf, pref);

			if (rc == RTR_SUCCESS && g)
				g->used = false;
			vh_bput(&ev, "{\"e\":\"rm\",\"pref\":%d,\"rc\":\"%s\"", pref, rc == RTR_SUCCESS ? "ok" : "err");
			observe(&ev);
		} else {
			continue;
		}
		fputs(ev.p, out);
		fflush(out);
	}
	if (conf)
		rtr_mgr_free(conf);
	fputs("{\"e\":\"end\"}\n", out);
	fclose(out);
	return 0;
}
