/* C20: calls rtr_state_to_str / rtr_mgr_status_to_str for every integer in a range and prints the result.
 * ASan+UBSan build: the name tables are globals with red zones. One value per process invocation would be
 * slow, so each call is made in a forked child and a crash is reported as such. */
#include "rtrlib/rtr/rtr.h"
#include "rtrlib/rtr_mgr.h"
#include <stdio.h>
#include <stdlib.h>
#include <string.h>
#include <sys/wait.h>
#include <unistd.h>

int main(int argc, char **argv)
{
	int lo = atoi(argv[1]), hi = atoi(argv[2]);

	for (int which = 0; which < 2; which++)
		for (int v = lo; v <= hi; v++) {
			int fd[2];

			if (pipe(fd))
				return 2;
			fflush(stdout);
			pid_t p = fork();

			if (p == 0) {
				const char *s = which == 0 ? rtr_state_to_str((enum rtr_socket_state)v) :
							     rtr_mgr_status_to_str((enum rtr_mgr_status)v);
				char buf[256];
				int n = snprintf(buf, sizeof(buf), "%s", s ? s : "\x01NULL");

				if (write(fd[1], buf, n) < 0)
					_exit(3);
				_exit(0);
			}
			close(fd[1]);
			char buf[256] = {0};
			int n = read(fd[0], buf, sizeof(buf) - 1);
			int st;

			close(fd[0]);
			waitpid(p, &st, 0);
			printf("{\"e\":\"name\",\"fn\":\"%s\",\"v\":%d,", which == 0 ? "state" : "status", v);
			if (!WIFEXITED(st) || WEXITSTATUS(st) != 0)
				printf("\"crash\":true,\"res\":\"\"}\n");
			else if (n > 0 && buf[0] == 1)
				printf("\"crash\":false,\"null\":true,\"res\":\"\"}\n");
			else {
				for (int i = 0; i < n; i++)
					if (buf[i] == '"' || buf[i] == '\\' || (unsigned char)buf[i] < 32)
						buf[i] = '?';
				printf("\"crash\":false,\"null\":false,\"res\":\"%s\"}\n", buf);
			}
		}
	return 0;
}
