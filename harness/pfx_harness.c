/*
 * Prefix-table harness: drives the real pfx_table code and logs one ndjson event per
 * public-operation return (arguments, result, callbacks emitted inside the call).
 * The log is validated against spec/PfxTableTrace.tla (properties C01, C02, C09, C18).
 *
 *   pfx_harness gen <seed> <episodes> <ops-per-episode> <maxpool> <out.ndjson>
 *   pfx_harness script <in.ndjson> <out.ndjson>      one op per input line (from TLC behaviours)
 *
 * Optional allocation-failure injection (C18):  env VH_FAIL_AT=<k>  fails the k-th allocation
 * (counted from the first operation) exactly once; the event of the call in which it
 * happened carries "af":true.   env VH_COUNT_ALLOCS=1 prints the number of allocations.
 */
#include "rtrlib/lib/alloc_utils.h"
#include "rtrlib/pfx/pfx_private.h"
#include "rtrlib/rtr/rtr.h"
#include "vh.h"

#define NT 2
static struct rtr_socket socks[3];
static const char *sock_name[3] = {"A", "B", "C"};
static struct pfx_table tabs[NT + 1];
static bool alive[NT + 1];
static FILE *out;
static struct vh_buf cbbuf, line;
static int cbn;

#include "vh_alloc.h"

/* ---------------- JSON output of records ---------------- */
static int sock_idx(const struct rtr_socket *s)
{
	for (int i = 0; i < 3; i++)
		if (s == &socks[i])
			return i;
	return -1;
}
static void put_prefix(struct vh_buf *b, const struct lrtr_ip_addr *a, unsigned int len)
{
	if (a->ver == LRTR_IPV4)
		vh_bput(b, "\"f\":4,\"w\":[%u,%u],\"l\":%u", a->u.addr4.addr >> 16, a->u.addr4.addr & 0xffff, len);
	else
		vh_bput(b, "\"f\":6,\"w\":[%u,%u,%u,%u,%u,%u,%u,%u],\"l\":%u", a->u.addr6.addr[0] >> 16,
			a->u.addr6.addr[0] & 0xffff, a->u.addr6.addr[1] >> 16, a->u.addr6.addr[1] & 0xffff,
			a->u.addr6.addr[2] >> 16, a->u.addr6.addr[2] & 0xffff, a->u.addr6.addr[3] >> 16,
			a->u.addr6.addr[3] & 0xffff, len);
}
static void put_rec(struct vh_buf *b, const struct pfx_record *r)
{
	int si = sock_idx(r->socket);

	vh_bput(b, "{");
	put_prefix(b, &r->prefix, r->min_len);
	vh_bput(b, ",\"m\":%u,\"a\":\"%u\",\"s\":\"%s\"}", r->max_len, r->asn, si >= 0 ? sock_name[si] : "?");
}
static int tab_idx(const struct pfx_table *t)
{
	for (int i = 1; i <= NT; i++)
		if (t == &tabs[i])
			return i;
	return 0;
}
static void update_cb(struct pfx_table *t, const struct pfx_record rec, const bool added)
{
	vh_bput(&cbbuf, "%s{\"t\":%d,\"add\":%s,\"r\":", cbn++ ? "," : "", tab_idx(t), added ? "true" : "false");
	put_rec(&cbbuf, &rec);
	vh_bput(&cbbuf, "}");
}
static void begin(void)
{
	vh_breset(&cbbuf);
	vh_breset(&line);
	cbn = 0;
	injected_now = false;
}
static void end(void)
{
	vh_bput(&line, ",\"cb\":[%s]%s}\n", cbbuf.p ? cbbuf.p : "", injected_now ? ",\"af\":true" : "");
	fputs(line.p, out);
}
static const char *rcname(int rc)
{
	switch (rc) {
	case PFX_SUCCESS:
		return "ok";
	case PFX_ERROR:
		return "err";
	case PFX_DUPLICATE_RECORD:
		return "dup";
	case PFX_RECORD_NOT_FOUND:
		return "nf";
	}
	return "other";
}

/* ---------------- operations ---------------- */
static void op_reset(void)
{
	for (int t = 1; t <= NT; t++) {
		if (alive[t]) {
			pfx_table_free_without_notify(&tabs[t]);
			alive[t] = false;
		}
	}
	fputs("{\"e\":\"reset\"}\n", out);
}
static void op_init(int t, bool cbk)
{
	if (alive[t])
		return;
	pfx_table_init(&tabs[t], cbk ? update_cb : NULL);
	alive[t] = true;
	fprintf(out, "{\"e\":\"init\",\"t\":%d,\"cbk\":%s}\n", t, cbk ? "true" : "false");
}
static void op_add(int t, const struct pfx_record *r)
{
	begin();
	int rc = pfx_table_add(&tabs[t], r);

	vh_bput(&line, "{\"e\":\"add\",\"t\":%d,\"r\":", t);
	put_rec(&line, r);
	vh_bput(&line, ",\"rc\":\"%s\"", rcname(rc));
	end();
}
static void op_rm(int t, const struct pfx_record *r)
{
	begin();
	int rc = pfx_table_remove(&tabs[t], r);

	vh_bput(&line, "{\"e\":\"rm\",\"t\":%d,\"r\":", t);
	put_rec(&line, r);
	vh_bput(&line, ",\"rc\":\"%s\"", rcname(rc));
	end();
}
static void op_srcrm(int t, int s)
{
	begin();
	int rc = pfx_table_src_remove(&tabs[t], &socks[s]);

	vh_bput(&line, "{\"e\":\"srcrm\",\"t\":%d,\"s\":\"%s\",\"rc\":\"%s\"", t, sock_name[s], rcname(rc));
	end();
}
/* the deciding-records buffer is handed back to the next query, as the API allows ("reason must point to NULL or an
 * allocated memory area"); every fourth query starts from a fresh NULL buffer */
static struct pfx_record *why;
static unsigned int wn, val_calls;
static void op_val(int t, const struct lrtr_ip_addr *q, unsigned int len, uint32_t asn, bool with_reason, bool mgr_api)
{
	enum pfxv_state res = 99;
	int rc;

	begin();
	if (with_reason && val_calls++ % 4 == 3) {
		lrtr_free(why);
		why = NULL;
		wn = 0;
	}
	if (with_reason)
		rc = pfx_table_validate_r(&tabs[t], &why, &wn, asn, q, len, &res);
	else
		rc = pfx_table_validate(&tabs[t], asn, q, len, &res);
	vh_bput(&line, "{\"e\":\"val\",\"t\":%d,\"q\":{", t);
	put_prefix(&line, q, len);
	vh_bput(&line, "},\"a\":\"%u\",\"rc\":\"%s\",\"res\":\"%s\"", asn, rcname(rc),
		res == BGP_PFXV_STATE_VALID	  ? "valid" :
		res == BGP_PFXV_STATE_INVALID	  ? "invalid" :
		res == BGP_PFXV_STATE_NOT_FOUND ? "notfound" :
						    "unset");
	if (with_reason) {
		vh_bput(&line, ",\"why\":[");
		for (unsigned int i = 0; i < wn; i++) {
			if (i)
				vh_bput(&line, ",");
			put_rec(&line, &why[i]);
		}
		vh_bput(&line, "]");
	}
	end();
}
static struct vh_buf enumbuf;
static int enumn;
static void enum_cb(const struct pfx_record *r, void *d)
{
	(void)d;
	if (enumn++)
		vh_bput(&enumbuf, ",");
	put_rec(&enumbuf, r);
}
static void op_enum(int t)
{
	vh_breset(&enumbuf);
	enumn = 0;
	pfx_table_for_each_ipv4_record(&tabs[t], enum_cb, NULL);
	pfx_table_for_each_ipv6_record(&tabs[t], enum_cb, NULL);
	fprintf(out, "{\"e\":\"enum\",\"t\":%d,\"all\":[%s]}\n", t, enumbuf.p ? enumbuf.p : "");
}
static void op_copyx(int src, int dst, int s)
{
	begin();
	int rc = pfx_table_copy_except_socket(&tabs[src], &tabs[dst], &socks[s]);

	vh_bput(&line, "{\"e\":\"copyx\",\"src\":%d,\"dst\":%d,\"s\":\"%s\",\"rc\":\"%s\"", src, dst, sock_name[s],
		rcname(rc));
	end();
}
static void op_swap(int a, int b)
{
	begin();
	pfx_table_swap(&tabs[a], &tabs[b]);
	vh_bput(&line, "{\"e\":\"swap\",\"a\":%d,\"b\":%d", a, b);
	end();
}
static void op_diff(int nw, int old, int s)
{
	begin();
	pfx_table_notify_diff(&tabs[nw], &tabs[old], &socks[s]);
	vh_bput(&line, "{\"e\":\"diff\",\"new\":%d,\"old\":%d,\"s\":\"%s\"", nw, old, sock_name[s]);
	end();
}
static void op_free(int t, bool quiet)
{
	begin();
	if (quiet)
		pfx_table_free_without_notify(&tabs[t]);
	else
		pfx_table_free(&tabs[t]);
	alive[t] = false;
	vh_bput(&line, "{\"e\":\"%s\",\"t\":%d", quiet ? "freeq" : "free", t);
	end();
}

/* ---------------- random driver ---------------- */
static void mask_addr(struct lrtr_ip_addr *a, unsigned int len)
{
	if (a->ver == LRTR_IPV4) {
		a->u.addr4.addr = len == 0 ? 0 : (a->u.addr4.addr & (0xffffffffu << (32 - len)));
	} else {
		for (int i = 0; i < 4; i++) {
			unsigned int lo = i * 32;

			if (len <= lo)
				a->u.addr6.addr[i] = 0;
			else if (len < lo + 32)
				a->u.addr6.addr[i] &= (0xffffffffu << (32 - (len - lo)));
		}
	}
}
static void rand_addr(struct lrtr_ip_addr *a, int fam)
{
	memset(a, 0, sizeof(*a));
	a->ver = fam == 4 ? LRTR_IPV4 : LRTR_IPV6;
	if (fam == 4) {
		a->u.addr4.addr = vh_r32();
	} else {
		for (int i = 0; i < 4; i++)
			a->u.addr6.addr[i] = vh_r32();
	}
}
static void flip_bit(struct lrtr_ip_addr *a, unsigned int bit) /* bit 0 = most significant */
{
	if (a->ver == LRTR_IPV4)
		a->u.addr4.addr ^= 1u << (31 - bit);
	else
		a->u.addr6.addr[bit / 32] ^= 1u << (31 - bit % 32);
}
static void rand_host_bits(struct lrtr_ip_addr *a, unsigned int len)
{
	unsigned int maxb = a->ver == LRTR_IPV4 ? 32 : 128;

	for (unsigned int b = len; b < maxb; b++)
		if (vh_chance(50))
			flip_bit(a, b);
}
static uint32_t asn_pool[8];
static uint32_t rand_asn(void)
{
	return asn_pool[vh_rn(8)];
}

#define MAXPOOL 400
static struct pfx_record pool[MAXPOOL];
static int npool;

static void gen_pool(int maxpool)
{
	int fam_mode = vh_rn(5); /* 0,1: v4  2,3: v6  4: mixed */
	int shape = vh_rn(5);
	/* some pools carry prefixes with host bits set (distinct records with the same leading bits): only where the property
	 * speaks of arbitrary records (C02, C09; VH_NONCANON set by the driver) - C01 is stated for host bits zero */
	bool noncanon = vh_chance(25) && getenv("VH_NONCANON");
	int want = 4 + vh_rn(maxpool - 3);
	struct lrtr_ip_addr base4, base6;

	rand_addr(&base4, 4);
	rand_addr(&base6, 6);
	asn_pool[0] = 0;
	asn_pool[1] = 1;
	asn_pool[2] = 65000;
	asn_pool[3] = 4294967295u;
	asn_pool[4] = 2147483648u;
	for (int i = 5; i < 8; i++)
		asn_pool[i] = vh_r32();
	npool = 0;
	while (npool < want) {
		int fam = fam_mode < 2 ? 4 : fam_mode < 4 ? 6 : (vh_chance(50) ? 4 : 6);
		unsigned int maxb = fam == 4 ? 32 : 128;
		struct lrtr_ip_addr a = fam == 4 ? base4 : base6;
		unsigned int len;

		switch (shape) {
		case 0: /* chain along one path, plus siblings */
			len = vh_rn(maxb + 1);
			if (len > 0 && vh_chance(25))
				flip_bit(&a, len - 1);
			break;
		case 1: { /* cluster below a base prefix */
			unsigned int k = vh_rn(maxb - 7);

			len = k + vh_rn(9);
			for (unsigned int b = k; b < len; b++)
				if (vh_chance(50))
					flip_bit(&a, b);
			break;
		}
		case 2: /* unrelated random prefixes */
			rand_addr(&a, fam);
			len = vh_rn(maxb + 1);
			break;
		case 3: /* deep: the last bits of the address space */
			len = maxb - vh_rn(6);
			for (unsigned int b = maxb - 6; b < len; b++)
				if (vh_chance(50))
					flip_bit(&a, b);
			break;
		default: /* short prefixes incl. /0, across 32-bit word boundaries for v6 */
			len = vh_chance(50) ? vh_rn(4) : (fam == 6 ? 30 + vh_rn(6) + 32 * vh_rn(3) : vh_rn(maxb + 1));
			if (len > maxb)
				len = maxb;
			for (unsigned int b = 0; b < len; b++)
				if (vh_chance(30))
					flip_bit(&a, b);
			break;
		}
		if (noncanon && vh_chance(50))
			len = vh_rn(4); /* short prefixes: several records of one length share their leading bits and differ in host bits only */
		mask_addr(&a, len);
		int variants = 1 + vh_rn(noncanon ? 7 : 3);

		for (int v = 0; v < variants && npool < want; v++) {
			struct pfx_record *r = &pool[npool];

			memset(r, 0, sizeof(*r));
			r->prefix = a;
			if (noncanon && len < maxb && vh_chance(70))
				for (int hb = 1 + vh_rn(3); hb > 0; hb--)
					flip_bit(&r->prefix, len + vh_rn(maxb - len > 6 ? 6 : maxb - len));
			r->min_len = len;
			switch (vh_rn(5)) {
			case 0:
				r->max_len = len;
				break;
			case 1:
				r->max_len = len + 1 > maxb ? maxb : len + 1;
				break;
			case 2:
				r->max_len = maxb;
				break;
			case 3:
				r->max_len = len + vh_rn(maxb - len + 1);
				break;
			default:
				r->max_len = vh_chance(10) ? vh_rn(maxb + 1) : len + vh_rn(maxb - len + 1);
				break;
			}
			r->asn = rand_asn();
			r->socket = &socks[vh_rn(3)];
			/* near-duplicates: differ from an earlier record in exactly one field */
			if (npool > 0 && vh_chance(20)) {
				*r = pool[vh_rn(npool)];
				switch (vh_rn(3)) {
				case 0:
					r->asn = rand_asn();
					break;
				case 1:
					r->max_len = r->min_len + vh_rn((r->prefix.ver == LRTR_IPV4 ? 32 : 128) - r->min_len + 1);
					break;
				default:
					r->socket = &socks[vh_rn(3)];
					break;
				}
				if (r->prefix.ver == LRTR_IPV6 && r->min_len >= 64 && vh_chance(50)) {
					/* another prefix of the same length whose address differs from the earlier one by the very same bit
					 * pattern in two 32-bit words */
					uint32_t pat = 1u << vh_rn(32);

					if (vh_chance(50))
						pat |= 1u << vh_rn(32);
					r->prefix.u.addr6.addr[0] ^= pat;
					r->prefix.u.addr6.addr[1] ^= pat;
					if (r->min_len == 128 && vh_chance(50)) {
						r->prefix.u.addr6.addr[2] ^= pat;
						r->prefix.u.addr6.addr[3] ^= pat;
					}
				}
			}
			npool++;
		}
	}
}
static void rand_query(int t, int nq)
{
	for (int i = 0; i < nq; i++) {
		const struct pfx_record *p = &pool[vh_rn(npool)];
		struct lrtr_ip_addr q = p->prefix;
		unsigned int maxb = q.ver == LRTR_IPV4 ? 32 : 128;
		unsigned int len = p->min_len;
		uint32_t asn;

		switch (vh_rn(6)) {
		case 0: /* exact */
			break;
		case 1: /* more specific */
			len = len + vh_rn(maxb - len + 1);
			break;
		case 2: /* less specific */
			len = vh_rn(len + 1);
			break;
		case 3: /* sibling */
			if (len > 0)
				flip_bit(&q, vh_rn(len));
			len = len + vh_rn(maxb - len + 1);
			break;
		case 4: /* at max_len boundary */
			len = p->max_len + vh_rn(3) - 1;
			if (len > maxb)
				len = maxb;
			if (len < p->min_len)
				len = p->min_len;
			break;
		default:
			if (vh_chance(30))
				rand_addr(&q, q.ver == LRTR_IPV4 ? 4 : 6);
			len = vh_rn(maxb + 1);
			break;
		}
		if (vh_chance(60))
			rand_host_bits(&q, len);
		if (vh_chance(25))
			mask_addr(&q, len);
		asn = vh_chance(65) ? p->asn : rand_asn();
		op_val(t, &q, len, asn, vh_chance(60), false);
	}
}
/* the question a removal (or any restructuring of the trie) must not change: every pool record asked for exactly -
 * its own prefix at its own length and at its max length, with its own AS */
static void probe_record(int t, const struct pfx_record *p)
{
	op_val(t, &p->prefix, p->min_len, p->asn, vh_chance(50), false);
	if (p->max_len != p->min_len && vh_chance(50))
		op_val(t, &p->prefix, p->max_len, p->asn, false, false);
}
static void pool_sweep(int t)
{
	for (int i = 0; i < npool; i++)
		probe_record(t, &pool[i]);
}
static void reload_sequence(void)
{
	int s = vh_rn(3);
	int n = vh_rn(npool < 12 ? npool : 12);

	op_init(2, false);
	op_copyx(1, 2, s);
	for (int i = 0; i < n; i++) {
		struct pfx_record r = pool[vh_rn(npool)];

		r.socket = &socks[s];
		if (vh_chance(85))
			op_add(2, &r);
		else
			op_rm(2, &r);
	}
	if (vh_chance(15)) { /* aborted reload */
		op_free(2, true);
		return;
	}
	op_swap(1, 2);
	op_diff(1, 2, s);
	op_free(2, true);
	op_enum(1);
}
/* one record per prefix length along one address (1..K), inserted in scrambled order: tries deeper than a machine word */
static void deep_chain_episode(void)
{
	int fam = vh_chance(75) ? 6 : 4;
	unsigned int maxb = fam == 4 ? 32 : 128;
	unsigned int k = fam == 4 ? 32 : 36 + vh_rn(93);
	struct lrtr_ip_addr base;

	rand_addr(&base, fam);
	asn_pool[0] = 0;
	asn_pool[1] = 1;
	asn_pool[2] = 65000;
	for (int i = 3; i < 8; i++)
		asn_pool[i] = vh_r32();
	npool = 0;
	for (unsigned int len = 1; len <= k && npool < MAXPOOL; len++) {
		struct pfx_record *r = &pool[npool++];

		memset(r, 0, sizeof(*r));
		r->prefix = base;
		mask_addr(&r->prefix, len);
		r->min_len = len;
		r->max_len = vh_chance(50) ? len : len + vh_rn(maxb - len + 1);
		r->asn = asn_pool[1 + vh_rn(7)];
		r->socket = &socks[vh_rn(3)];
	}
	op_init(1, true);
	for (int i = npool - 1; i > 0; i--) { /* scrambled insertion order */
		int j = vh_rn(i + 1);
		struct pfx_record tmp = pool[i];

		pool[i] = pool[j];
		pool[j] = tmp;
	}
	for (int i = 0; i < npool; i++)
		op_add(1, &pool[i]);
	rand_query(1, 40);
	for (int i = 0; i < npool; i += 2)
		op_rm(1, &pool[i]);
	rand_query(1, 40);
	pool_sweep(1);
	op_enum(1);
	op_free(1, false);
	op_reset();
}
/* A node X with two children of different prefix lengths (and a grandchild below each) is removed, then its children
 * one by one: the pull-up in trie_remove must promote the shorter child, or a record ends up below a longer prefix
 * where trie_lookup_exact no longer finds it.  In this trie the children of a node at depth d are told apart by bit d
 * of their prefixes (they need not extend the node's prefix): d ancestors along one bit path, X at depth d, a left
 * record with bit d = 0 and a right record with bit d = 1, both longer than X.  After every step every record of the
 * pool is asked for exactly. */
static unsigned int addr_bit(const struct lrtr_ip_addr *a, unsigned int bit)
{
	return a->ver == LRTR_IPV4 ? (a->u.addr4.addr >> (31 - bit)) & 1 : (a->u.addr6.addr[bit / 32] >> (31 - bit % 32)) & 1;
}
static void set_addr_bit(struct lrtr_ip_addr *a, unsigned int bit, unsigned int v)
{
	if (addr_bit(a, bit) != v)
		flip_bit(a, bit);
}
static void fork_episode(void)
{
	int fam = vh_chance(50) ? 6 : 4;
	unsigned int maxb = fam == 4 ? 32 : 128;
	unsigned int d = vh_rn(4), k = d + 1 + vh_rn(3);
	struct lrtr_ip_addr base;
	int order[16], ix, il, ir;

	rand_addr(&base, fam);
	asn_pool[0] = 0;
	asn_pool[1] = 1;
	asn_pool[2] = 65000;
	for (int i = 3; i < 8; i++)
		asn_pool[i] = vh_r32();
	npool = 0;
	for (unsigned int i = 0; i < d + 5; i++) {
		struct pfx_record *r = &pool[npool++];

		memset(r, 0, sizeof(*r));
		if (i < d) { /* ancestors: lengths 1..d along the path */
			r->prefix = base;
			r->min_len = i + 1;
		} else if (i == d) { /* X */
			r->prefix = base;
			r->min_len = k;
		} else if (i <= d + 2) { /* left / right: the path, bit d = 0 / 1, anything behind it */
			rand_addr(&r->prefix, fam);
			for (unsigned int b = 0; b < d; b++)
				set_addr_bit(&r->prefix, b, addr_bit(&base, b));
			set_addr_bit(&r->prefix, d, i == d + 1 ? 0 : 1);
			r->min_len = k + 1 + vh_rn(6);
		} else { /* a grandchild below each */
			*r = pool[i - 2];
			flip_bit(&r->prefix, r->min_len);
			r->min_len += 1 + vh_rn(4);
		}
		mask_addr(&r->prefix, r->min_len);
		r->max_len = vh_chance(50) ? r->min_len : r->min_len + vh_rn(maxb - r->min_len + 1);
		r->asn = asn_pool[1 + vh_rn(7)];
		r->socket = &socks[vh_rn(3)];
	}
	ix = d;
	il = d + 1;
	ir = d + 2;
	op_init(1, true);
	for (int i = 0; i < npool; i++)
		order[i] = i;
	for (int i = npool - 1; i > 0; i--) {
		int j = vh_rn(i + 1), t = order[i];

		order[i] = order[j];
		order[j] = t;
	}
	for (int i = 0; i < npool; i++)
		op_add(1, &pool[order[i]]);
	pool_sweep(1);
	op_rm(1, &pool[ix]);
	pool_sweep(1);
	int first = vh_chance(50) ? il : ir, second = first == il ? ir : il;

	op_rm(1, &pool[first]);
	pool_sweep(1);
	op_add(1, &pool[ix]);
	op_add(1, &pool[first]);
	pool_sweep(1);
	op_rm(1, &pool[ix]);
	op_rm(1, &pool[second]);
	pool_sweep(1);
	if (d > 0)
		op_rm(1, &pool[0]);
	op_rm(1, &pool[first]);
	pool_sweep(1);
	rand_query(1, 10);
	op_enum(1);
	op_free(1, false);
	op_reset();
}
static void episode(int nops, int maxpool)
{
	if (maxpool > 24 && vh_chance(50)) {
		deep_chain_episode();
		return;
	}
	if (vh_chance(25)) {
		fork_episode();
		return;
	}
	gen_pool(maxpool);
	op_init(1, true);
	for (int i = 0; i < nops; i++) {
		int c = vh_rn(100);

		if (c < 50) {
			op_add(1, &pool[vh_rn(npool)]);
		} else if (c < 78) {
			const struct pfx_record *victim = &pool[vh_rn(npool)];

			op_rm(1, victim);
			probe_record(1, victim);
			probe_record(1, &pool[vh_rn(npool)]);
			if (vh_chance(10))
				pool_sweep(1);
		} else if (c < 82) {
			op_srcrm(1, vh_rn(3));
		} else if (c < 88) {
			op_enum(1);
		} else if (c < 92) {
			if (!getenv("VH_NO_RELOAD"))
				reload_sequence();
		} else {
			rand_query(1, 3);
		}
		rand_query(1, 1 + vh_rn(2));
	}
	pool_sweep(1);
	op_enum(1);
	if (vh_chance(70)) {
		op_free(1, false);
		op_init(1, true);
		op_enum(1);
	}
	op_reset();
}

/* ---------------- script mode ---------------- */
static void parse_prefix(const struct vj *o, struct lrtr_ip_addr *a, unsigned int *len)
{
	struct vj *w = vj_get(o, "w");

	memset(a, 0, sizeof(*a));
	*len = vj_int(o, "l", 0);
	if (vj_int(o, "f", 4) == 4) {
		a->ver = LRTR_IPV4;
		a->u.addr4.addr = ((uint32_t)w->items[0]->num << 16) | (uint32_t)w->items[1]->num;
	} else {
		a->ver = LRTR_IPV6;
		for (int i = 0; i < 4; i++)
			a->u.addr6.addr[i] = ((uint32_t)w->items[2 * i]->num << 16) | (uint32_t)w->items[2 * i + 1]->num;
	}
}
static int src_of(const char *s)
{
	return s[0] - 'A';
}
static void parse_rec(const struct vj *o, struct pfx_record *r)
{
	unsigned int len;

	memset(r, 0, sizeof(*r));
	parse_prefix(o, &r->prefix, &len);
	r->min_len = len;
	r->max_len = vj_int(o, "m", len);
	r->asn = (uint32_t)strtoul(vj_str(o, "a", "0"), NULL, 10);
	r->socket = &socks[src_of(vj_str(o, "s", "A"))];
}
static void run_script(const char *path)
{
	FILE *f = fopen(path, "r");
	char *lineb = NULL;
	size_t cap = 0;

	if (!f) {
		perror(path);
		exit(2);
	}
	while (getline(&lineb, &cap, f) > 0) {
		struct vj *o = vj_parse(lineb);
		const char *op = vj_str(o, "op", "");
		int t = vj_int(o, "t", 1);
		struct pfx_record r;

		if (!strcmp(op, "reset")) {
			op_reset();
		} else if (!strcmp(op, "init")) {
			op_init(t, vj_int(o, "cbk", 1));
		} else if (!strcmp(op, "add")) {
			parse_rec(vj_get(o, "r"), &r);
			op_add(t, &r);
		} else if (!strcmp(op, "rm")) {
			parse_rec(vj_get(o, "r"), &r);
			op_rm(t, &r);
		} else if (!strcmp(op, "srcrm")) {
			op_srcrm(t, src_of(vj_str(o, "s", "A")));
		} else if (!strcmp(op, "enum")) {
			op_enum(t);
		} else if (!strcmp(op, "val")) {
			struct lrtr_ip_addr q;
			unsigned int len;

			parse_prefix(vj_get(o, "q"), &q, &len);
			op_val(t, &q, len, (uint32_t)strtoul(vj_str(o, "a", "0"), NULL, 10), vj_int(o, "wr", 1), false);
		} else if (!strcmp(op, "copyx")) {
			op_copyx(vj_int(o, "src", 1), vj_int(o, "dst", 2), src_of(vj_str(o, "s", "A")));
		} else if (!strcmp(op, "swap")) {
			op_swap(vj_int(o, "a", 1), vj_int(o, "b", 2));
		} else if (!strcmp(op, "diff")) {
			op_diff(vj_int(o, "new", 1), vj_int(o, "old", 2), src_of(vj_str(o, "s", "A")));
		} else if (!strcmp(op, "free")) {
			op_free(t, false);
		} else if (!strcmp(op, "freeq")) {
			op_free(t, true);
		}
		/* the parsed tree is leaked on purpose: the process is short-lived */
	}
	fclose(f);
}

int main(int argc, char **argv)
{
	if (argc < 2)
		return 2;
	if (getenv("VH_FAIL_AT") || getenv("VH_COUNT_ALLOCS")) {
		if (getenv("VH_FAIL_AT"))
			fail_at = atol(getenv("VH_FAIL_AT"));
		lrtr_set_alloc_functions(v_malloc, v_realloc, v_free);
	}
	if (!strcmp(argv[1], "gen") && argc == 7) {
		vh_seed(strtoull(argv[2], NULL, 10));
		int episodes = atoi(argv[3]), nops = atoi(argv[4]), maxpool = atoi(argv[5]);

		if (maxpool > MAXPOOL)
			maxpool = MAXPOOL;
		out = fopen(argv[6], "w");
		for (int e = 0; e < episodes; e++)
			episode(nops, (e % 7 == 6) ? maxpool : (maxpool > 24 ? 24 : maxpool));
	} else if (!strcmp(argv[1], "script") && argc == 4) {
		out = fopen(argv[3], "w");
		run_script(argv[2]);
	} else {
		return 2;
	}
	fclose(out);
	lrtr_free(why);
	why = NULL;
	if (getenv("VH_COUNT_ALLOCS") || getenv("VH_FAIL_AT"))
		printf("ALLOCS %ld LIVE %ld MISUSE %d\n", alloc_count, live_blocks, alloc_misuse);
	return 0;
}
