/*
 * Router-key table harness: drives the real spki_table code and logs one ndjson event per
 * operation return; validated against spec/SpkiTableTrace.tla (C10, C18).
 *
 *   spki_harness gen <seed> <episodes> <ops-per-episode> <maxpool> <out.ndjson>
 *   spki_harness script <in.ndjson> <out.ndjson>
 */
#include "rtrlib/lib/alloc_utils.h"
#include "rtrlib/rtr/rtr.h"
#include "rtrlib/spki/hashtable/ht-spkitable_private.h"
#include "third-party/tommyds/tommyhash.h"
#include "vh.h"
#include "vh_alloc.h"

#define NT 2
static struct rtr_socket socks[3];
static const char *sock_name[3] = {"A", "B", "C"};
static struct spki_table tabs[NT + 1];
static bool alive[NT + 1];
static FILE *out;
static struct vh_buf cbbuf, line;
static int cbn;

/* SKI / SPKI byte strings are derived from small ids so that distinct ids give distinct arrays
 * differing in a single byte whose position sweeps the whole array (catches short compares). */
static void ski_bytes(int id, uint8_t *b)
{
	memset(b, 0x11, SKI_SIZE);
	b[id % SKI_SIZE] ^= (uint8_t)(1 + id / SKI_SIZE);
}
static void spki_bytes(int id, uint8_t *b)
{
	memset(b, 0x22, SPKI_SIZE);
	b[id % SPKI_SIZE] ^= (uint8_t)(1 + id / SPKI_SIZE);
}
static int ski_id(const uint8_t *b)
{
	for (int i = 0; i < SKI_SIZE; i++)
		if (b[i] != 0x11) {
			int id = ((b[i] ^ 0x11) - 1) * SKI_SIZE + i;
			uint8_t chk[SKI_SIZE];

			ski_bytes(id, chk);
			return memcmp(chk, b, SKI_SIZE) ? -1 : id;
		}
	return -1;
}
static int spki_id(const uint8_t *b)
{
	for (int i = 0; i < SPKI_SIZE; i++)
		if (b[i] != 0x22) {
			int id = ((b[i] ^ 0x22) - 1) * SPKI_SIZE + i;
			uint8_t chk[SPKI_SIZE];

			spki_bytes(id, chk);
			return memcmp(chk, b, SPKI_SIZE) ? -1 : id;
		}
	return -1;
}
static int sock_idx(const struct rtr_socket *s)
{
	for (int i = 0; i < 3; i++)
		if (s == &socks[i])
			return i;
	return -1;
}
static void put_rec(struct vh_buf *b, const struct spki_record *r)
{
	int si = sock_idx(r->socket);

	vh_bput(b, "{\"a\":\"%u\",\"k\":\"s%d\",\"p\":\"p%d\",\"s\":\"%s\"}", r->asn, ski_id(r->ski), spki_id(r->spki),
		si >= 0 ? sock_name[si] : "?");
}
static void mk_rec(struct spki_record *r, uint32_t asn, int ski, int spki, int src)
{
	memset(r, 0, sizeof(*r));
	r->asn = asn;
	ski_bytes(ski, r->ski);
	spki_bytes(spki, r->spki);
	r->socket = &socks[src];
}
static int tab_idx(const struct spki_table *t)
{
	for (int i = 1; i <= NT; i++)
		if (t == &tabs[i])
			return i;
	return 0;
}
static void update_cb(struct spki_table *t, const struct spki_record rec, const bool added)
{
	vh_bput(&cbbuf, "%s{\"t\":%d,\"add\":%s,\"r\":", cbn++ ? "," : "", tab_idx(t), added ? "true" : "false");
	put_rec(&cbbuf, &rec);
	vh_bput(&cbbuf, "}");
}
static void begin(void)
{
	vh_breset(&cbbuf);
	vh_breset(&line);
	cbn = 0;
	injected_now = false;
}
static void end(void)
{
	vh_bput(&line, ",\"cb\":[%s]%s}\n", cbbuf.p ? cbbuf.p : "", injected_now ? ",\"af\":true" : "");
	fputs(line.p, out);
}
static const char *rcname(int rc)
{
	switch (rc) {
	case SPKI_SUCCESS:
		return "ok";
	case SPKI_ERROR:
		return "err";
	case SPKI_DUPLICATE_RECORD:
		return "dup";
	case SPKI_RECORD_NOT_FOUND:
		return "nf";
	}
	return "other";
}
static void op_reset(void)
{
	for (int t = 1; t <= NT; t++)
		if (alive[t]) {
			spki_table_free_without_notify(&tabs[t]);
			alive[t] = false;
		}
	fputs("{\"e\":\"reset\"}\n", out);
}
static void op_init(int t, bool cbk)
{
	if (alive[t])
		return;
	spki_table_init(&tabs[t], cbk ? update_cb : NULL);
	alive[t] = true;
	fprintf(out, "{\"e\":\"init\",\"t\":%d,\"cbk\":%s}\n", t, cbk ? "true" : "false");
}
static int last_rc;
static void op_add(int t, struct spki_record *r)
{
	begin();
	int rc = spki_table_add_entry(&tabs[t], r);

	last_rc = rc;

	vh_bput(&line, "{\"e\":\"add\",\"t\":%d,\"r\":", t);
	put_rec(&line, r);
	vh_bput(&line, ",\"rc\":\"%s\"", rcname(rc));
	end();
}
static void op_rm(int t, struct spki_record *r)
{
	begin();
	int rc = spki_table_remove_entry(&tabs[t], r);

	last_rc = rc;

	vh_bput(&line, "{\"e\":\"rm\",\"t\":%d,\"r\":", t);
	put_rec(&line, r);
	vh_bput(&line, ",\"rc\":\"%s\"", rcname(rc));
	end();
}
static void op_srcrm(int t, int s)
{
	begin();
	int rc = spki_table_src_remove(&tabs[t], &socks[s]);

	vh_bput(&line, "{\"e\":\"srcrm\",\"t\":%d,\"s\":\"%s\",\"rc\":\"%s\"", t, sock_name[s], rcname(rc));
	end();
}
static void put_results(struct spki_record *res, unsigned int n)
{
	vh_bput(&line, ",\"res\":[");
	for (unsigned int i = 0; i < n; i++) {
		if (i)
			vh_bput(&line, ",");
		put_rec(&line, &res[i]);
	}
	vh_bput(&line, "]");
}
static void op_get(int t, uint32_t asn, int ski)
{
	uint8_t k[SKI_SIZE];
	struct spki_record *res = NULL;
	unsigned int n = 0;

	ski_bytes(ski, k);
	begin();
	int rc = spki_table_get_all(&tabs[t], asn, k, &res, &n);

	vh_bput(&line, "{\"e\":\"get\",\"t\":%d,\"a\":\"%u\",\"k\":\"s%d\",\"rc\":\"%s\"", t, asn, ski, rcname(rc));
	put_results(res, rc == SPKI_SUCCESS ? n : 0);
	if (rc == SPKI_SUCCESS)
		lrtr_free(res);
	end();
}
static void op_ski(int t, int ski)
{
	uint8_t k[SKI_SIZE];
	struct spki_record *res = NULL;
	unsigned int n = 0;

	ski_bytes(ski, k);
	begin();
	int rc = spki_table_search_by_ski(&tabs[t], k, &res, &n);

	vh_bput(&line, "{\"e\":\"ski\",\"t\":%d,\"k\":\"s%d\",\"rc\":\"%s\"", t, ski, rcname(rc));
	put_results(res, rc == SPKI_SUCCESS ? n : 0);
	if (rc == SPKI_SUCCESS)
		lrtr_free(res);
	end();
}
static void op_copyx(int src, int dst, int s)
{
	begin();
	int rc = spki_table_copy_except_socket(&tabs[src], &tabs[dst], &socks[s]);

	vh_bput(&line, "{\"e\":\"copyx\",\"src\":%d,\"dst\":%d,\"s\":\"%s\",\"rc\":\"%s\"", src, dst, sock_name[s],
		rcname(rc));
	end();
}
static void op_swap(int a, int b)
{
	begin();
	spki_table_swap(&tabs[a], &tabs[b]);
	vh_bput(&line, "{\"e\":\"swap\",\"a\":%d,\"b\":%d", a, b);
	end();
}
static void op_diff(int nw, int old, int s)
{
	begin();
	spki_table_notify_diff(&tabs[nw], &tabs[old], &socks[s]);
	vh_bput(&line, "{\"e\":\"diff\",\"new\":%d,\"old\":%d,\"s\":\"%s\"", nw, old, sock_name[s]);
	end();
}
static void op_free(int t)
{
	begin();
	spki_table_free_without_notify(&tabs[t]);
	alive[t] = false;
	vh_bput(&line, "{\"e\":\"free\",\"t\":%d", t);
	end();
}

/* ---------------- random driver ---------------- */
#define MAXPOOL 1200
static struct spki_record pool[MAXPOOL];
static int pool_ski[MAXPOOL];
static int npool, nski, nasn;
static uint32_t asns[64];

static void gen_pool(int maxpool)
{
	int want = 6 + vh_rn(maxpool - 5);

	/* AS numbers: half of them collide in the low 10 bits of tommy_inthash_u32 */
	nasn = 3 + vh_rn(20);
	uint32_t cls = vh_rn(1024);

	for (int i = 0; i < nasn; i++) {
		if (i % 2 == 0) {
			uint32_t a = vh_r32();

			while ((tommy_inthash_u32(a) & 1023) != cls)
				a++;
			asns[i] = a;
		} else {
			asns[i] = vh_chance(20) ? (uint32_t[]){0, 1, 4294967295u, 2147483648u}[vh_rn(4)] : vh_r32();
		}
	}
	nski = 1 + vh_rn(want < 10 ? want : 10 + want / 8);
	npool = 0;
	while (npool < want) {
		int ski = vh_rn(nski);

		mk_rec(&pool[npool], asns[vh_rn(nasn)], ski, vh_rn(1 + want / 2), vh_rn(3));
		if (npool > 0 && vh_chance(25)) { /* near duplicate: differs in exactly one field */
			int o = vh_rn(npool);

			pool[npool] = pool[o];
			ski = pool_ski[o];
			switch (vh_rn(4)) {
			case 0:
				pool[npool].asn = asns[vh_rn(nasn)];
				break;
			case 1:
				ski = vh_rn(nski);
				ski_bytes(ski, pool[npool].ski);
				break;
			case 2:
				spki_bytes(vh_rn(1 + want / 2), pool[npool].spki);
				break;
			default:
				pool[npool].socket = &socks[vh_rn(3)];
				break;
			}
		}
		pool_ski[npool] = ski;
		npool++;
	}
}
static void rand_lookup(int t)
{
	if (vh_chance(70)) {
		int i = vh_rn(npool);
		uint32_t asn = vh_chance(75) ? pool[i].asn : asns[vh_rn(nasn)];
		int ski = vh_chance(85) ? pool_ski[i] : (int)vh_rn(nski + 1);

		op_get(t, asn, ski);
	} else {
		op_ski(t, vh_chance(90) ? pool_ski[vh_rn(npool)] : (int)vh_rn(nski + 1));
	}
}
static void reload_sequence(void)
{
	int s = vh_rn(3);
	int n = vh_rn(npool < 12 ? npool : 12);

	op_init(2, false);
	op_copyx(1, 2, s);
	for (int i = 0; i < n; i++) {
		struct spki_record r = pool[vh_rn(npool)];

		r.socket = &socks[s];
		if (vh_chance(85))
			op_add(2, &r);
		else
			op_rm(2, &r);
	}
	if (vh_chance(15)) {
		op_free(2);
		return;
	}
	op_swap(1, 2);
	op_diff(1, 2, s);
	op_free(2);
	rand_lookup(1);
}
static void episode(int nops, int maxpool)
{
	bool up = true;
	int size = 0; /* exact size of table 1 as long as no reload / srcrm intervenes (then re-estimated) */
	int lo, hi;

	gen_pool(maxpool);
	/* water marks: the table size oscillates between lo and hi so that the linear hash
	 * starts growing / shrinking and is turned around half-way (resize steps are incremental) */
	lo = vh_rn(25);
	hi = 28 + vh_rn(npool > 40 ? npool - 28 : 12);
	op_init(1, true);
	for (int i = 0; i < nops; i++) {
		int c = vh_rn(100);
		int addp = up ? 70 : 10;

		if (c < addp) {
			op_add(1, &pool[vh_rn(npool)]);
			if (last_rc == SPKI_SUCCESS)
				size++;
		} else if (c < 84) {
			op_rm(1, &pool[vh_rn(npool)]);
			if (last_rc == SPKI_SUCCESS && size > 0)
				size--;
		} else if (c < 85) {
			op_srcrm(1, vh_rn(3));
			size = size * 2 / 3;
		} else if (c < 87) {
			if (!getenv("VH_NO_RELOAD"))
				reload_sequence();
		} else {
			rand_lookup(1);
		}
		if (vh_chance(35))
			rand_lookup(1);
		if (up && size >= hi) {
			up = false;
			lo = vh_rn(25);
		} else if (!up && size <= lo) {
			up = true;
			hi = 28 + vh_rn(npool > 40 ? npool - 28 : 12);
		}
	}
	/* final sweep: every distinct (asn, ski) of the pool and every ski */
	for (int i = 0; i < npool && i < 40; i++)
		op_get(1, pool[i].asn, pool_ski[i]);
	for (int k = 0; k < nski && k < 12; k++)
		op_ski(1, k);
	op_reset();
}

/* Resize episode: distinct keys are added and removed in long monotone phases so that the
 * linear hash completes a grow, starts a shrink, is turned around before the shrink has
 * finished, etc.; the whole pool is looked up at every turning point. */
static void resize_episode(void)
{
	int n = 150 + vh_rn(150);
	bool in[MAXPOOL] = {false};
	int size = 0;

	gen_pool(n);
	/* many distinct AS numbers, so that most buckets of the hash are populated */
	nasn = 64;
	for (int i = 0; i < nasn; i++)
		if (i % 4)
			asns[i] = vh_r32();
	/* make the pool entries pairwise distinct: give each its own spki id */
	npool = n;
	for (int i = 0; i < npool; i++)
		mk_rec(&pool[i], asns[vh_rn(nasn)], pool_ski[i] = vh_rn(nski), i, vh_rn(3));
	op_init(1, true);
	int phases = 4 + vh_rn(5);
	bool up = true;

	for (int ph = 0; ph < phases; ph++) {
		/* targets are chosen relative to the table's current bucket count B (white-box guidance
		 * of the driver only; the oracle never looks at it): grow starts above B/2 and ends at B,
		 * shrink starts below B/8 and ends below B/16 */
		int B = tabs[1].hashtable.bucket_max;
		int target;

		if (up) {
			switch (vh_rn(3)) {
			case 0:
				target = B / 2 + 1 + vh_rn(B / 4); /* grow started, not finished */
				break;
			case 1:
				target = B + vh_rn(8); /* grow finished */
				break;
			default:
				target = size + 1 + vh_rn(60);
				break;
			}
		} else {
			switch (vh_rn(4)) {
			case 0:
			case 1:
				target = B / 16 + 1 + vh_rn(B / 16 - 1); /* shrink started, not finished */
				break;
			case 2:
				target = vh_rn(B / 16 + 1); /* shrink finished */
				break;
			default:
				target = vh_rn(size + 1);
				break;
			}
		}
		if (target > npool)
			target = npool;
		if (target < 0 || ph == phases - 1)
			target = 0;
		while (size != target) {
			int i = vh_rn(npool);

			if (size < target) {
				while (in[i])
					i = (i + 1) % npool;
				op_add(1, &pool[i]);
				in[i] = true;
				size++;
			} else {
				while (!in[i])
					i = (i + 1) % npool;
				op_rm(1, &pool[i]);
				in[i] = false;
				size--;
			}
			if (vh_chance(8))
				rand_lookup(1);
		}
		for (int i = 0; i < npool; i++)
			if (i % 3 == ph % 3 || in[i])
				op_get(1, pool[i].asn, pool_ski[i]);
		for (int k = 0; k < nski && k < 6; k++)
			op_ski(1, k);
		up = !up;
	}
	op_reset();
}

/* ---------------- script mode ---------------- */
static int src_of(const char *s)
{
	return s[0] - 'A';
}
static void parse_rec(const struct vj *o, struct spki_record *r)
{
	mk_rec(r, (uint32_t)strtoul(vj_str(o, "a", "0"), NULL, 10), atoi(vj_str(o, "k", "s0") + 1),
	       atoi(vj_str(o, "p", "p0") + 1), src_of(vj_str(o, "s", "A")));
}
static void run_script(const char *path)
{
	FILE *f = fopen(path, "r");
	char *lineb = NULL;
	size_t cap = 0;

	if (!f) {
		perror(path);
		exit(2);
	}
	while (getline(&lineb, &cap, f) > 0) {
		struct vj *o = vj_parse(lineb);
		const char *op = vj_str(o, "op", "");
		int t = vj_int(o, "t", 1);
		struct spki_record r;

		if (!strcmp(op, "reset")) {
			op_reset();
		} else if (!strcmp(op, "init")) {
			op_init(t, vj_int(o, "cbk", 1));
		} else if (!strcmp(op, "add")) {
			parse_rec(vj_get(o, "r"), &r);
			op_add(t, &r);
		} else if (!strcmp(op, "rm")) {
			parse_rec(vj_get(o, "r"), &r);
			op_rm(t, &r);
		} else if (!strcmp(op, "srcrm")) {
			op_srcrm(t, src_of(vj_str(o, "s", "A")));
		} else if (!strcmp(op, "get")) {
			op_get(t, (uint32_t)strtoul(vj_str(o, "a", "0"), NULL, 10), atoi(vj_str(o, "k", "s0") + 1));
		} else if (!strcmp(op, "ski")) {
			op_ski(t, atoi(vj_str(o, "k", "s0") + 1));
		} else if (!strcmp(op, "copyx")) {
			op_copyx(vj_int(o, "src", 1), vj_int(o, "dst", 2), src_of(vj_str(o, "s", "A")));
		} else if (!strcmp(op, "swap")) {
			op_swap(vj_int(o, "a", 1), vj_int(o, "b", 2));
		} else if (!strcmp(op, "diff")) {
			op_diff(vj_int(o, "new", 1), vj_int(o, "old", 2), src_of(vj_str(o, "s", "A")));
		} else if (!strcmp(op, "free")) {
			op_free(t);
		}
	}
	fclose(f);
}

int main(int argc, char **argv)
{
	if (argc < 2)
		return 2;
	if (getenv("VH_FAIL_AT") || getenv("VH_COUNT_ALLOCS")) {
		if (getenv("VH_FAIL_AT"))
			fail_at = atol(getenv("VH_FAIL_AT"));
		lrtr_set_alloc_functions(v_malloc, v_realloc, v_free);
	}
	if (!strcmp(argv[1], "gen") && argc == 7) {
		vh_seed(strtoull(argv[2], NULL, 10));
		int episodes = atoi(argv[3]), nops = atoi(argv[4]), maxpool = atoi(argv[5]);

		if (maxpool > MAXPOOL)
			maxpool = MAXPOOL;
		out = fopen(argv[6], "w");
		for (int e = 0; e < episodes; e++) {
			bool big = (e % 5 == 4);

			if ((e % 5 == 2 || e % 5 == 0) && !getenv("VH_NO_RELOAD")) {
				resize_episode();
				continue;
			}
			episode(big ? nops * 6 : nops, big ? maxpool : (maxpool > 30 ? 30 : maxpool));
		}
	} else if (!strcmp(argv[1], "script") && argc == 4) {
		out = fopen(argv[3], "w");
		run_script(argv[2]);
	} else {
		return 2;
	}
	fclose(out);
	if (getenv("VH_COUNT_ALLOCS") || getenv("VH_FAIL_AT"))
		printf("ALLOCS %ld LIVE %ld MISUSE %d\n", alloc_count, live_blocks, alloc_misuse);
	return 0;
}
