/* Shared helpers for the verification harnesses: seeded RNG, ndjson output, tiny JSON reader. */
#ifndef VH_H
#define VH_H
#include <ctype.h>
#include <inttypes.h>
#include <stdarg.h>
#include <stdbool.h>
#include <stdint.h>
#include <stdio.h>
#include <stdlib.h>
#include <string.h>

/* ---------------- RNG (splitmix64 / xorshift) ---------------- */
static uint64_t vh_rng_s = 0x9E3779B97F4A7C15ull;
static inline void vh_seed(uint64_t s) { vh_rng_s = s * 0x9E3779B97F4A7C15ull + 0xD1B54A32D192ED03ull; }
static inline uint64_t vh_r64(void)
{
	uint64_t z = (vh_rng_s += 0x9E3779B97F4A7C15ull);

	z = (z ^ (z >> 30)) * 0xBF58476D1CE4E5B9ull;
	z = (z ^ (z >> 27)) * 0x94D049BB133111EBull;
	return z ^ (z >> 31);
}
static inline uint32_t vh_r32(void) { return (uint32_t)(vh_r64() >> 32); }
static inline unsigned int vh_rn(unsigned int n) { return n ? (unsigned int)(vh_r64() % n) : 0; }
static inline bool vh_chance(unsigned int pct) { return vh_rn(100) < pct; }

/* ---------------- output buffer ---------------- */
struct vh_buf {
	char *p;
	size_t len, cap;
};
static inline void vh_bput(struct vh_buf *b, const char *fmt, ...)
{
	va_list ap;
	for (;;) {
		va_start(ap, fmt);
		int n = vsnprintf(b->p ? b->p + b->len : NULL, b->p ? b->cap - b->len : 0, fmt, ap);

		va_end(ap);
		if (b->p && (size_t)n < b->cap - b->len) {
			b->len += n;
			return;
		}
		b->cap = (b->cap + n + 64) * 2;
		b->p = realloc(b->p, b->cap);
		if (!b->p)
			abort();
	}
}
static inline void vh_breset(struct vh_buf *b)
{
	b->len = 0;
	if (b->p)
		b->p[0] = 0;
}

/* ---------------- minimal JSON reader (objects, arrays, strings, ints, booleans) ---------------- */
enum vj_type { VJ_NULL, VJ_BOOL, VJ_NUM, VJ_STR, VJ_ARR, VJ_OBJ };
struct vj {
	enum vj_type t;
	long long num;
	char *str;
	struct vj **items;
	char **keys;
	int n;
};
static const char *vj_p;
static void vj_ws(void)
{
	while (*vj_p && isspace((unsigned char)*vj_p))
		vj_p++;
}
static struct vj *vj_parse_val(void);
static char *vj_parse_str(void)
{
	const char *s = ++vj_p;

	while (*vj_p && *vj_p != '"') {
		if (*vj_p == '\\')
			vj_p++;
		vj_p++;
	}
	char *r = strndup(s, vj_p - s);

	if (*vj_p)
		vj_p++;
	return r;
}
static struct vj *vj_parse_val(void)
{
	struct vj *v = calloc(1, sizeof(*v));

	vj_ws();
	if (*vj_p == '{' || *vj_p == '[') {
		char close = *vj_p == '{' ? '}' : ']';

		v->t = *vj_p == '{' ? VJ_OBJ : VJ_ARR;
		vj_p++;
		vj_ws();
		while (*vj_p && *vj_p != close) {
			v->items = realloc(v->items, sizeof(*v->items) * (v->n + 1));
			v->keys = realloc(v->keys, sizeof(*v->keys) * (v->n + 1));
			v->keys[v->n] = NULL;
			if (v->t == VJ_OBJ) {
				vj_ws();
				v->keys[v->n] = vj_parse_str();
				vj_ws();
				if (*vj_p == ':')
					vj_p++;
			}
			v->items[v->n++] = vj_parse_val();
			vj_ws();
			if (*vj_p == ',')
				vj_p++;
			vj_ws();
		}
		if (*vj_p)
			vj_p++;
	} else if (*vj_p == '"') {
		v->t = VJ_STR;
		v->str = vj_parse_str();
	} else if (!strncmp(vj_p, "true", 4)) {
		v->t = VJ_BOOL;
		v->num = 1;
		vj_p += 4;
	} else if (!strncmp(vj_p, "false", 5)) {
		v->t = VJ_BOOL;
		vj_p += 5;
	} else if (!strncmp(vj_p, "null", 4)) {
		vj_p += 4;
	} else {
		v->t = VJ_NUM;
		v->num = strtoll(vj_p, (char **)&vj_p, 10);
	}
	return v;
}
static inline struct vj *vj_parse(const char *s)
{
	vj_p = s;
	return vj_parse_val();
}
static inline struct vj *vj_get(const struct vj *o, const char *k)
{
	if (!o || o->t != VJ_OBJ)
		return NULL;
	for (int i = 0; i < o->n; i++)
		if (!strcmp(o->keys[i], k))
			return o->items[i];
	return NULL;
}
static inline long long vj_int(const struct vj *o, const char *k, long long d)
{
	struct vj *v = vj_get(o, k);

	if (!v)
		return d;
	if (v->t == VJ_STR)
		return strtoll(v->str, NULL, 10);
	return v->num;
}
static inline const char *vj_str(const struct vj *o, const char *k, const char *d)
{
	struct vj *v = vj_get(o, k);

	return (v && v->t == VJ_STR) ? v->str : d;
}
static inline char *vh_slurp(const char *path)
{
	FILE *f = fopen(path, "rb");

	if (!f)
		return NULL;
	fseek(f, 0, SEEK_END);
	long n = ftell(f);

	fseek(f, 0, SEEK_SET);
	char *b = malloc(n + 1);

	if (fread(b, 1, n, f) != (size_t)n) {
		fclose(f);
		free(b);
		return NULL;
	}
	b[n] = 0;
	fclose(f);
	return b;
}
#endif
