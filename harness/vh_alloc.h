/* Allocator with k-th-allocation failure injection and ownership tagging (C18). */
#ifndef VH_ALLOC_H
#define VH_ALLOC_H
#include <stdbool.h>
#include <stdint.h>
#include <stdio.h>
#include <stdlib.h>
#define TAG_LIVE 0x5ca1ab1e0ddba11ull
#define TAG_DEAD 0xdeadbeefdeadbeefull
struct blk_hdr {
	uint64_t tag;
	uint64_t size;
};
static long alloc_count, fail_at = -1, live_blocks;
static bool injected_now, alloc_misuse;
#if defined(__has_feature)
#if __has_feature(address_sanitizer)
void __sanitizer_print_stack_trace(void);
#define VH_PRINT_STACK() __sanitizer_print_stack_trace()
#endif
#endif
#ifndef VH_PRINT_STACK
#define VH_PRINT_STACK() ((void)0)
#endif
static bool should_fail(void)
{
	alloc_count++;
	if (fail_at >= 0 && alloc_count == fail_at) {
		injected_now = true;
		/* the call site of the failed allocation identifies a finding (not where the process later dies) */
		fprintf(stderr, "INJECTED-AT: allocation #%ld\n", alloc_count);
		VH_PRINT_STACK();
		fprintf(stderr, "INJECTED-END\n");
		return true;
	}
	return false;
}
static void *v_malloc(size_t n)
{
	if (should_fail())
		return NULL;
	struct blk_hdr *h = malloc(sizeof(*h) + n);

	h->tag = TAG_LIVE;
	h->size = n;
	live_blocks++;
	return h + 1;
}
static void v_free(void *p)
{
	if (!p)
		return;
	struct blk_hdr *h = (struct blk_hdr *)p - 1;

	if (h->tag != TAG_LIVE) {
		alloc_misuse = true;
		fprintf(stderr, "ALLOC-MISUSE: block %p released through the configured allocator was not obtained from it\n", p);
		return;
	}
	h->tag = TAG_DEAD;
	live_blocks--;
	free(h);
}
static void *v_realloc(void *p, size_t n)
{
	if (!p)
		return v_malloc(n);
	if (n == 0) {
		/* realloc(p, 0): behave like glibc (free, return NULL) but count as an allocation site */
		alloc_count++;
		v_free(p);
		return NULL;
	}
	if (should_fail())
		return NULL;
	struct blk_hdr *h = (struct blk_hdr *)p - 1;

	if (h->tag != TAG_LIVE) {
		alloc_misuse = true;
		fprintf(stderr, "ALLOC-MISUSE: realloc of foreign block %p\n", p);
		return NULL;
	}
	h = realloc(h, sizeof(*h) + n);
	h->size = n;
	return h + 1;
}

#endif
