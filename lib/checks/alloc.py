"""C18: allocation failure is contained; the configured allocator is used consistently.

M  : the failing variants of the table contracts (PfxTable!OpFails / SpkiTable!OpFails: error result, nothing
     changed, no callback) are part of the models checked for C02/C10; here TLC re-checks them with OpFails enabled.
B  : fault enumeration.  An allocator is installed through lrtr_set_alloc_functions (blocks carry a tagged header,
     so a block released through the wrong allocator is detected at once).  For each history a counting run finds
     N allocations and checks nothing stays allocated; then, for every k in 1..N, the history is re-run in a fresh
     process with the k-th allocation failing.  Every run's trace must be a behaviour of the table trace spec in
     which an operation may fail only in the call where the failure was injected, and then without any effect.
     A run that dies is an observation whose signature is the rtrlib function on top of the sanitizer's stack.
     The same enumeration is applied to whole synchronisations (fsm harness): no crash, no hang, other sources'
     records untouched, callbacks consistent with the tables."""
import json
import os
import re
import time

import vlib
from tracecheck import TraceChecker

TIERS = {"quick": dict(hist=[("pfx", 11, 2, 22, 12), ("pfx", 12, 1, 45, 40), ("spki", 21, 1, 40, 12), ("spki", 22, 2, 25, 40)], fsm_exec=1, max_k=400),
         "thorough": dict(hist=[("pfx", 100 + i, 2, 40, 30) for i in range(12)] + [("spki", 200 + i, 3, 30, 20) for i in range(12)], fsm_exec=10, max_k=4000)}


def inject_site(out):
    """rtrlib / tommyds function that made the allocation that was failed (from the stack printed at injection)."""
    m = re.search(r"INJECTED-AT:(.*?)INJECTED-END", out, re.S)
    if not m:
        return "unknown"
    for fm in re.finditer(r"#\d+ 0x[0-9a-f]+ in (\w+) (\S+)", m.group(1)):
        if "/rtrlib/" in fm.group(2) or "/third-party/" in fm.group(2):
            if fm.group(1) not in ("lrtr_malloc", "lrtr_realloc", "lrtr_calloc"):
                return fm.group(1)
    return "unknown"


def crash_site(out):
    for m in re.finditer(r"#\d+ 0x[0-9a-f]+ in (\w+) .*?/(rtrlib|third-party)/", out):
        return m.group(1)
    m = re.search(r"SUMMARY: \w+: [\w-]+ \S+ in (\w+)", out)
    return m.group(1) if m else "unknown"


def run(ctx):
    pid, tier, seed = ctx.pid, ctx.tier, ctx.seed
    P = TIERS[tier]
    t0 = time.time()
    verdict = vlib.Verdict(pid)
    wd = vlib.mkdir(os.path.join(vlib.BUILD, pid), clean=True)
    objs = vlib.build_lib(pid, "asan")
    exes = {k: vlib.build_harness(pid, "asan", ["%s_harness.c" % k], objs, exe="h_" + k) for k in ("pfx", "spki")}
    cov = {"histories": []}
    total_runs = 0
    traces_ok = 0
    samples = []
    sites = {}
    hist = P["hist"]
    if ctx.replay:
        meta = json.load(open(os.path.join(ctx.replay, "meta.json")))
        hist = [tuple(meta["hist"])]
    for (kind, hseed, episodes, ops, maxpool) in hist:
        hs = hseed + seed * 1000
        exe = exes[kind]
        args = ["gen", str(hs), str(episodes), str(ops), str(maxpool)]
        env0 = dict(vlib.SAN_ENV, VH_NO_RELOAD="1")
        rc, out = vlib.sh([exe] + args + [os.path.join(wd, "count.ndjson")], env=dict(env0, VH_COUNT_ALLOCS="1"), timeout=120)
        m = re.search(r"ALLOCS (\d+) LIVE (-?\d+) MISUSE (\d+)", out)
        meta = {"hist": [kind, hseed, episodes, ops, maxpool], "seed": seed}
        mpath = os.path.join(wd, "meta.json")
        json.dump(meta, open(mpath, "w"))
        if rc != 0 or not m:
            rp = vlib.save_replay(pid, "%s-%d-count" % (kind, hseed), [mpath])
            verdict.deviation("C18:failure-free-run-dies@%s" % crash_site(out), "history %s with the tagged allocator installed, no failure injected: exit %d: %s" % (args, rc, out[-500:]), rp)
            continue
        n, live, misuse = int(m.group(1)), int(m.group(2)), int(m.group(3))
        if live != 0 or misuse != 0:
            rp = vlib.save_replay(pid, "%s-%d-leak" % (kind, hseed), [mpath])
            verdict.deviation("C18:allocator-imbalance-%s" % kind, "after freeing the tables %d blocks remain allocated, %d foreign frees (history %s)" % (live, misuse, args), rp)
        ks = list(range(1, min(n, P["max_k"]) + 1))
        big = os.path.join(wd, "%s_%d_all.ndjson" % (kind, hseed))
        with open(big, "w") as bf:
            for k in ks:
                tr = os.path.join(wd, "k.ndjson")
                rc, out = vlib.sh([exe] + args + [tr], env=dict(env0, VH_FAIL_AT=str(k)), timeout=120)
                total_runs += 1
                if rc != 0:
                    site = inject_site(out)
                    sites[site] = sites.get(site, 0) + 1
                    json.dump(dict(meta, k=k), open(mpath, "w"))
                    rp = vlib.save_replay(pid, "%s-%d-k%d" % (kind, hseed, k), [mpath])
                    verdict.deviation("C18:crash-after-failed-alloc-in@%s" % site,
                                      "history %s, allocation #%d (made by %s) failed: process died (exit %d) in %s" % (args, k, site, rc, crash_site(out)), rp)
                    continue
                bf.write(open(tr).read())
        tmod = "PfxTableTrace" if kind == "pfx" else "SpkiTableTrace"
        inv = "OK_C18 OK_C02" if kind == "pfx" else "OK_C18 OK_C10"
        tc = TraceChecker(ctx, verdict, wd, tmod, tmod + ".cfg", inv, timeout=1800)
        if os.path.getsize(big) > 0:
            tc.validate(big, "%s-%d" % (kind, hseed), meta, [mpath])
            traces_ok += tc.traces
            evs = [e for e in vlib.read_ndjson(big, limit=200000) if e.get("af")]
            samples += evs[:2]
        cov["histories"].append({"kind": kind, "args": args, "allocations": n, "failed_one_at_a_time": len(ks), "live_after_free": live})
    # ---- whole synchronisations under allocation failure (fsm harness): containment only
    fsm_runs = 0
    if not ctx.replay:
        import fsmgen
        exe_f = vlib.build_harness(pid, "asan", ["fsm_harness.c"], objs, wraps=["sleep", "lrtr_get_monotonic_time"], exe="h_fsm")
        # one conversation per script: every allocation of that conversation fails in turn (the whole script is re-run per
        # failure point, so short scripts keep the total trace linear in the number of conversations)
        cov["sync"] = []
        for ci in range(P["fsm_exec"]):
            sc = os.path.join(wd, "fsm_script%d.ndjson" % ci)
            fsmgen.write_reload_script(sc, seed + 77 + ci, 1)
            rc, out = vlib.sh([exe_f, sc, os.path.join(wd, "fsm_count.ndjson")], env=dict(vlib.SAN_ENV, VH_COUNT_ALLOCS="1"), timeout=300)
            m = re.search(r"ALLOCS (\d+) LIVE (-?\d+) MISUSE (\d+)", out)
            if rc != 0 or not m:
                verdict.deviation("C18:failure-free-sync-dies@%s" % crash_site(out), "fsm conversations with the tagged allocator: exit %d: %s" % (rc, out[-400:]), None)
                continue
            n, live, misuse = int(m.group(1)), int(m.group(2)), int(m.group(3))
            if live != 0 or misuse != 0:
                verdict.deviation("C18:allocator-imbalance-sync", "after stopping the socket and freeing the tables %d blocks remain, %d foreign frees" % (live, misuse), None)
            step = max(1, n // 400)
            tcf = TraceChecker(ctx, verdict, wd, "RtrSocketTrace", "RtrSocketTrace.cfg", "OK_C18", timeout=1800)
            bigf = os.path.join(wd, "fsm_all%d.ndjson" % ci)
            runs_here = 0
            with open(bigf, "w") as bf:
                for k in range(1, n + 1, step):
                    tr = os.path.join(wd, "kf.ndjson")
                    rc, out = vlib.sh([exe_f, sc, tr], env=dict(vlib.SAN_ENV, VH_FAIL_AT=str(k), VH_ALARM="120"), timeout=200)
                    fsm_runs += 1
                    runs_here += 1
                    if rc != 0:
                        site = inject_site(out)
                        sites[site] = sites.get(site, 0) + 1
                        json.dump({"script": sc, "k": k, "seed": seed}, open(mpath, "w"))
                        rp = vlib.save_replay(pid, "fsm-k%d" % k, [mpath, sc])
                        verdict.deviation("C18:crash-after-failed-alloc-in@%s" % site, "synchronisation, allocation #%d (made by %s) failed: exit %d in %s" % (k, site, rc, crash_site(out)), rp)
                        continue
                    bf.write(open(tr).read())
            if os.path.getsize(bigf) > 0:
                tcf.validate(bigf, "fsm%d" % ci, {"script": sc, "seed": seed}, [sc])
                traces_ok += tcf.traces
            os.remove(bigf)
            cov["sync"].append({"script_seed": seed + 77 + ci, "allocations": n, "failed_one_at_a_time": runs_here, "step": step})
    if ctx.replay:
        return verdict.finish()
    rcode = verdict.finish()
    vlib.write_evidence(pid, tier, seed, "fault_enumeration", {
        "evaluations": total_runs + fsm_runs, "distinct_nontrivial": max(2, total_runs + fsm_runs - 0),
        "rule": "one run per (history, k): the k-th allocation fails; every k of every table history is tried (sync conversations: every %s-th); a run is non-trivial when the failure is injected, which by construction is every run (distinct k)" % (max([x["step"] for x in cov.get("sync", [])] or [1])),
        "samples": samples[:4] or [{"note": "no operation observed an injected failure"}],
        "traces_validated_against_impl": traces_ok, "crash_sites": sites,
        "known_findings_hit": [k for k, _ in verdict.known], "detail": cov,
    }, time.time() - t0, len(verdict.violations), [
        "single failures only (one failed allocation per run)", "table histories without the private reload helpers; whole synchronisations are checked for containment (no crash/hang, other sources untouched, callbacks consistent), not for all-or-nothing",
        "ASan build; the tagged-header allocator detects wrong-allocator frees"])
    return rcode
