"""C11 (path validation) and C12 (signature generation).  Bgpsec.tla is a symbolic model of the decision
structure (signatures as terms over RFC 8205 digest tuples); TLC enumerates the case analysis (key-table variants
per hop, every single-field corruption at every hop, argument errors) and states the admissible results.  The
harness makes each case concrete with fresh P-256 keys (OpenSSL), signs with its own RFC 8205 serialiser, calls
the library, and BgpsecTrace.tla judges every result.  For C12 paths are built hop by hop with the library's
signing function and every produced segment is verified by the independent digest + ECDSA_verify."""
import json
import os
import random
import re
import time

import vlib
from tracecheck import TraceChecker


def concretise(c, rnd, k):
    n = c["hops"]
    afi = 1 if (k % 2 == 0) else 2
    maxlen = 32 if afi == 1 else 128
    nlri_len = (k * 7 + rnd.randrange(maxlen + 1)) % (maxlen + 1)
    nb = (nlri_len + 7) // 8
    nlri = [rnd.getrandbits(8) for _ in range(nb)]
    if nlri_len % 8 and nb:
        nlri[-1] &= (0xff << (8 - nlri_len % 8)) & 0xff
    asns = rnd.sample([1, 64496, 65000, 65535, 65536, 4200000000, 4294967295] + [rnd.getrandbits(32) for _ in range(6)], n)
    out = {"op": "val", "hops": n, "kv": c["kv"], "corrupt": dict(c["corrupt"], bit=rnd.randrange(256)), "argerr": c["argerr"],
           "afi": afi, "nlri_len": nlri_len, "nlri": nlri, "asn": [str(a) for a in asns],
           "pcount": [rnd.choice([0, 1, 2, 255, rnd.randrange(256)]) for _ in range(n)], "flags": [rnd.choice([0, 128, 255, rnd.randrange(256)]) for _ in range(n)],
           "target": str(rnd.choice([64512, 1, 4294967295, rnd.getrandbits(32)]))}
    return out


def gen_case(rnd, n, afi, nlri_len, err="none", errhop=1):
    nb = (nlri_len + 7) // 8
    nlri = [rnd.getrandbits(8) for _ in range(nb)]
    if nlri_len % 8 and nb:
        nlri[-1] &= (0xff << (8 - nlri_len % 8)) & 0xff
    return {"op": "gen", "hops": n, "afi": afi, "nlri_len": nlri_len, "nlri": nlri, "err": err, "errhop": errhop,
            "asn": [str(a) for a in rnd.sample(range(1, 2 ** 32 - 1), n)], "pcount": [rnd.randrange(256) for _ in range(n)],
            "flags": [rnd.choice([0, 128, rnd.randrange(256)]) for _ in range(n)], "target": str(rnd.getrandbits(32))}


def run(ctx):
    pid, tier, seed = ctx.pid, ctx.tier, ctx.seed
    t0 = time.time()
    verdict = vlib.Verdict(pid)
    wd = vlib.mkdir(os.path.join(vlib.BUILD, pid), clean=True)
    objs = vlib.build_lib(pid, "asan")
    exe = vlib.build_harness(pid, "asan", ["bgpsec_harness.c"], objs, wraps=["spki_table_search_by_ski"])
    tc = TraceChecker(ctx, verdict, wd, "BgpsecTrace", "BgpsecTrace.cfg", "OK_" + pid, timeout=1200)
    script = os.path.join(wd, "script.ndjson")
    ncases = 0
    if ctx.replay:
        script = os.path.join(ctx.replay, "script.ndjson")
    else:
        rnd = random.Random(seed)
        r = vlib.run_tlc("Bgpsec", "Bgpsec.cfg", pid + "-gen", workers=1, timeout=300)
        m = re.search(r'<<"CASES", "((?:[^"\\]|\\.)*)">>', r.out)
        if not m or "Error" in r.out:
            raise vlib.InfraError("Bgpsec.tla: case analysis failed: %s" % r.out[-800:])
        cases = json.loads(json.loads('"' + m.group(1) + '"'))
        ncases = len(cases)
        with open(script, "w") as f:
            if pid == "C11":
                reps = 3 if tier == "quick" else 40
                for c in cases:
                    for k in range(reps):
                        f.write(json.dumps(concretise(c, rnd, k + rnd.randrange(1000))) + "\n")
            else:
                lens4 = range(0, 33) if tier != "quick" else list(range(0, 33, 3)) + [1, 7, 9, 25, 31, 32]
                lens6 = range(0, 129) if tier != "quick" else list(range(0, 129, 9)) + [1, 44, 49, 65, 127, 128]
                for n in (1, 2, 3, 4):
                    for L in lens4:
                        f.write(json.dumps(gen_case(rnd, n, 1, L)) + "\n")
                    for L in lens6:
                        f.write(json.dumps(gen_case(rnd, n, 2, L)) + "\n")
                for n in (1, 2, 3):
                    for err in ("key", "suite", "afi", "count") + ("afi",) * 8:
                        for eh in range(1, n + 1):
                            f.write(json.dumps(gen_case(rnd, n, rnd.choice([1, 2]), rnd.choice([0, 8, 19, 24, 32]), err, eh)) + "\n")
    trace = os.path.join(wd, "trace.ndjson")
    rc, out = vlib.sh([exe, script, trace], env=vlib.SAN_ENV, timeout=1500)
    if rc != 0:
        rp = vlib.save_replay(pid, "crash-seed%d" % seed, [script])
        verdict.deviation("%s:harness-crash" % pid, "exit %d: %s" % (rc, out[-700:]), rp)
    else:
        tc.validate(trace, "bgpsec", {"mode": "script", "script": script, "seed": seed}, [script])
    if ctx.replay:
        return verdict.finish()
    evs = vlib.read_ndjson(trace) if os.path.exists(trace) else []
    extras = []
    if pid == "C12":
        # beyond the listed properties: the segment-list helpers a router builds its update with (prepend / append / pop
        # of Secure_Path and Signature segments, path_len / sigs_len), judged call by call by BgpsecSegTrace.tla
        from tracecheck import extra_conformance
        seg_cfg = "BgpsecSeg.cfg" if tier == "quick" else "BgpsecSeg_big.cfg"   # 68 163 / 8 848 271 distinct states
        r = vlib.run_tlc("BgpsecSeg", seg_cfg, pid + "-seg", workers=4 if tier == "quick" else 12, timeout=1500)
        exe_s = vlib.build_harness(pid, "asan", ["bgpsecseg_harness.c"], objs, exe="h_seg")
        t_seg = os.path.join(wd, "seg.ndjson")
        ncalls = 4000 if tier == "quick" else 40000
        rc_s, out_s = vlib.sh([exe_s, str(seed), str(ncalls), t_seg], env=vlib.SAN_ENV, timeout=300)
        if rc_s == 0:
            x = extra_conformance(ctx, wd, "BgpsecSegTrace", "BgpsecSegTrace.cfg", "OK_EXT", t_seg,
                                  "rtr_bgpsec_{prepend,append}_{sec_path,sig}_seg / pop_*: both lists and both counters after every call (BgpsecSeg.tla)")
        else:
            x = {"what": "segment-list helpers", "spec": "BgpsecSegTrace", "accepted": False, "harness_exit": rc_s, "output": out_s[-400:]}
        x["model"] = {"spec": "BgpsecSeg.tla / " + seg_cfg, "ok": bool(r.ok and r.violation is None), "distinct_states": r.distinct,
                      "checked": ["CountersExact", "PopUndoesPrepend", "RejectChangesNothing"]}
        extras.append(x)
    rel = [e for e in evs if (e["e"] == "val") == (pid == "C11")]
    rcode = verdict.finish()
    vlib.write_evidence(pid, tier, seed, "exploration", {
        "evaluations": len(rel), "distinct_nontrivial": len({vlib.digest(e) for e in rel if e.get("rc") not in (0,) or e["e"] != "val"}),
        "rule": "scenarios from the case analysis of Bgpsec.tla (%d abstract cases) made concrete with fresh keys, IPv4/IPv6 NLRI of varying bit length and random field values; each library result judged by BgpsecTrace.tla" % ncases,
        "samples": rel[:3], "traces_validated_against_impl": tc.traces,
        "explanation": "TLA+ decides the decision structure (which results are admissible for which key table / corruption / argument error); ECDSA, SHA-256 and the RFC 8205 byte layout are decided by OpenSSL and the harness's independent serialiser",
        "known_findings_hit": [k for k, _ in verdict.known],
        "extra_conformance": extras,
    }, time.time() - t0, len(verdict.violations), ["OpenSSL libcrypto and the harness's RFC 8205 serialiser are the trusted base for the cryptographic part", "ASan build"])
    return rcode
