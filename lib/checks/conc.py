"""C16 (linearizable, race-free concurrent use) and C06 (atomic reload for concurrent readers).

M : TLC on TableConc.tla (lock protocol at the granularity of lock calls and memory accesses; 2 readers, 3 mutations,
    every interleaving): RaceFree, Linearizable, NoTornRead.
B : real threads (harness/conc_harness.c).  C16: a writer thread runs a seeded history and publishes an operation
    counter around every call; readers log the counter at call and return; ConcTrace.tla replays the writer's history on
    the table contracts and accepts a read iff some version in its interval gives that answer (sound for every
    schedule).  The same run in a ThreadSanitizer build: a data-race report on rtrlib code is a violation.
    C06: the real rtr_sync() performs atomic reloads (thousands of records, scripted in-memory transport) while readers
    validate probe routes / look up probe keys; every read must see exactly one generation between the one complete at
    its call and the one being loaded at its return, and never an older one than a read that returned before it began.
    Schedules are sampled by the OS scheduler; the acceptance criteria hold for any schedule."""
import json
import os
import re
import time

import vlib
from tracecheck import TraceChecker

TIERS = {"quick": dict(rw_runs=3, rw_ops=2500, readers=3, reload_runs=4, reload_recs=1500, rounds=40, max_reads=9000),
         "thorough": dict(rw_runs=60, rw_ops=2500, readers=4, reload_runs=30, reload_recs=12000, rounds=12, max_reads=12000)}
HEAD = {"upfx", "ukey", "wpfx", "wkey", "wsrc", "wsrck", "load", "reload"}


def sort_trace(raw, dst, max_reads):
    evs = [json.loads(l) for l in open(raw) if l.strip()]
    head = [e for e in evs if e["e"] in HEAD]
    reads = [e for e in evs if e["e"] not in HEAD and e["e"] != "end"]
    reads.sort(key=lambda e: e.get("q1", e.get("c1", 0)))
    if len(reads) > max_reads:          # uniform sample (sound: fewer reads only means fewer ordering constraints)
        stride = len(reads) / float(max_reads)
        reads = [reads[int(i * stride)] for i in range(max_reads)]
    with open(dst, "w") as f:
        for e in head + reads + [{"e": "end"}]:
            f.write(json.dumps(e) + "\n")
    return head, reads


def tsan_races(out):
    """(function, function) pairs of rtrlib frames from ThreadSanitizer data-race reports."""
    races = set()
    for rep in out.split("WARNING: ThreadSanitizer: data race")[1:]:
        fns = re.findall(r"#\d+ (\w+) \S*/(?:rtrlib|third-party)/\S+", rep.split("SUMMARY")[0])
        fns = [f for f in fns if not f.startswith("__")]
        if fns:
            top = []
            for blk in re.split(r"\n\s*\n", rep):
                m = re.search(r"#\d+ (\w+) \S*/(?:rtrlib|third-party)/", blk)
                if m and ("Write of size" in blk or "Read of size" in blk or "Previous" in blk):
                    top.append(m.group(1))
            races.add(tuple(sorted(set(top[:2] or fns[:2]))))
    return races


def run(ctx):
    pid, tier, seed = ctx.pid, ctx.tier, ctx.seed
    P = TIERS[tier]
    t0 = time.time()
    verdict = vlib.Verdict(pid)
    wd = vlib.mkdir(os.path.join(vlib.BUILD, pid), clean=True)
    inv = "OK_" + pid
    tc = TraceChecker(ctx, verdict, wd, "ConcTrace", "ConcTrace.cfg", inv, timeout=1800)
    r = vlib.tlc_model("TableConc", "TableConc.cfg", pid + "-model", workers=8, timeout=600)
    cov = {"model": {"spec": "TableConc.tla", "cfg": "TableConc.cfg", **r.summary(), "checked": "TypeOK RaceFree Linearizable NoTornRead"}}
    if pid == "C06":
        # the reload protocol step by step (copy under the read lock, private build, swap of both roots under the write lock,
        # diff, free of the old generation) against readers; and the same with the pinned commit's unlocked root read, where
        # TLC must find the use after free (the model can see the defect the steered reader looks for)
        r2 = vlib.tlc_model("ReloadConc", "ReloadConc.cfg", pid + "-model2", workers=8, timeout=600)
        rp = vlib.run_tlc("ReloadConc", "ReloadConc_peek.cfg", pid + "-model2p", workers=4, timeout=600)
        if rp.violation is None:
            raise vlib.InfraError("ReloadConc_peek.cfg is expected to violate an invariant (sanity of the model) but did not: %s" % rp.out[-400:])
        if tier == "thorough":
            # unbounded number of reloads: inductive invariant discharged by Apalache (Init => IndInv, IndInv /\ Next => IndInv', IndInv => Safe)
            import shutil
            apa = []
            if shutil.which("apalache-mc"):
                awd = vlib.mkdir(os.path.join(wd, "apalache"), clean=True)
                for f in ("ReloadConcInd.tla", "ReloadConcInd.cfg"):
                    shutil.copy(os.path.join(vlib.SPEC, f), awd)
                for args in (["--init=Init", "--inv=IndInv", "--length=0"], ["--init=InitInd", "--inv=IndInv", "--length=1"],
                             ["--init=InitInd", "--inv=Safe", "--length=0"]):
                    rca, outa = vlib.sh(["apalache-mc", "check", "--config=ReloadConcInd.cfg"] + args + ["ReloadConcInd.tla"], cwd=awd, timeout=900)
                    ok = "The outcome is: NoError" in outa
                    apa.append({"obligation": " ".join(args), "discharged": ok})
                    if not ok and "The outcome is: Error" in outa:
                        raise vlib.InfraError("ReloadConcInd: inductive obligation %s fails (spec bug): %s" % (args, outa[-600:]))
                shutil.rmtree(os.path.join(awd, "_apalache-out"), ignore_errors=True)
            cov["model_reload_inductive"] = {"spec": "ReloadConcInd.tla", "tool": "apalache-mc 0.58", "obligations": apa or "apalache-mc not found",
                                             "meaning": "OneGeneration, NoUseAfterFree, Fresh, RaceFree hold for any number of reloads (two readers)"}
        cov["model_reload"] = {"spec": "ReloadConc.tla", "cfg": "ReloadConc.cfg", **r2.summary(),
                               "checked": "TypeOK OneGeneration NoUseAfterFree Fresh RaceFree",
                               "sanity": "ReloadConc_peek.cfg (root read before the lock) violates %s" % rp.violation}
    objs = vlib.build_lib(pid, "asan")
    exe = vlib.build_harness(pid, "asan", ["conc_harness.c"], objs, wraps=["pthread_rwlock_rdlock"])
    reads_total = 0
    overlapping = 0
    samples = []
    runs = []
    if pid == "C16":
        modes = [("rw", [str(P["rw_ops"]), str(P["readers"])], P["rw_runs"])]
    else:
        modes = [("reload", [str(P["reload_recs"]), str(P["readers"] * 2), str(P["rounds"])], P["reload_runs"])]
    if ctx.replay:
        meta = json.load(open(os.path.join(ctx.replay, "meta.json")))
        modes = [(meta["mode"], meta["args"], 1)]
    for mode, args, nruns in modes:
        for k in range(nruns):
            s = seed * 100 + k if not ctx.replay else meta["hseed"]
            raw = os.path.join(wd, "raw_%s_%d.ndjson" % (mode, k))
            rc, out = vlib.sh([exe, mode, str(s)] + args + [raw], env=vlib.SAN_ENV, timeout=400)
            meta_k = {"mode": mode, "args": args, "hseed": s, "seed": seed}
            if rc != 0:
                mpath = os.path.join(wd, "meta.json")
                json.dump(meta_k, open(mpath, "w"))
                rp = vlib.save_replay(pid, "%s-crash-%d" % (mode, s), [mpath])
                m = re.search(r"SUMMARY: AddressSanitizer: ([\w-]+) \S+ in (\w+)", out)
                verdict.deviation("%s:%s" % (pid, ("%s@%s" % (m.group(1), m.group(2))) if m else "harness-crash"),
                                  "threads on the real tables: exit %d: %s" % (rc, out[-500:]), rp)
                continue
            srt = os.path.join(wd, "sorted_%s_%d.ndjson" % (mode, k))
            head, reads = sort_trace(raw, srt, P["max_reads"])
            tc.validate(srt, "%s%d" % (mode, k), meta_k)
            reads_total += len(reads)
            overlapping += sum(1 for e in reads if e.get("c0", 0) != e.get("c1", 0) or e.get("g0", 0) != e.get("g1", 0) or e.get("c0", 0) % 2 == 1)
            if not samples:
                samples = [e for e in reads if e.get("c0", 0) != e.get("c1", 0) or e.get("g0", 0) != e.get("g1", 0)][:3] or reads[:3]
            runs.append({"mode": mode, "seed": s, "writer_or_reload_events": len([e for e in head if e["e"] in ("wpfx", "wkey", "reload")]), "reads": len(reads)})
    tsan = {}
    if pid == "C16" and not ctx.replay:
        objs_t = vlib.build_lib(pid + "-tsan", "tsan")
        exe_t = vlib.build_harness(pid + "-tsan", "tsan", ["conc_harness.c"], objs_t, wraps=["pthread_rwlock_rdlock"])
        races = set()
        for k in range(2 if tier == "quick" else 10):
            rc, out = vlib.sh([exe_t, "rw", str(seed * 100 + k), str(min(P["rw_ops"], 3000)), str(P["readers"]), os.path.join(wd, "tsan.ndjson")],
                              env=dict(vlib.SAN_ENV, TSAN_OPTIONS="halt_on_error=0:exitcode=0:report_signal_unsafe=0"), timeout=600)
            races |= tsan_races(out)
        tsan = {"runs": 2 if tier == "quick" else 10, "races": sorted("+".join(r) for r in races)}
        for rpair in sorted(races):
            verdict.deviation("C16:race@" + "+".join(rpair), "ThreadSanitizer: data race between %s" % " and ".join(rpair), None)
    if ctx.replay:
        return verdict.finish()
    cov["runs"] = runs
    cov["tsan"] = tsan
    rcode = verdict.finish()
    vlib.write_evidence(pid, tier, seed, "model_checking", {
        "states": r.distinct, "transitions": r.generated, "traces_validated_against_impl": tc.traces,
        "samples": samples or [{"note": "no reads recorded"}],
        "evaluations": reads_total, "distinct_nontrivial": max(2, overlapping),
        "rule": "reads by concurrent threads validated by ConcTrace.tla (%s); non-trivial = the read overlapped a write / a reload (different counter or generation at call and return, or an operation in progress at the call)" % inv,
        "checker_cmd": "tlc TableConc TableConc.cfg; tlc ConcTrace (INVARIANT %s)" % inv,
        "known_findings_hit": [k for k, _ in verdict.known], "detail": cov,
    }, time.time() - t0, len(verdict.violations), [
        "schedules on the code side are sampled by the OS scheduler (16 cores); the acceptance criteria are sound for any schedule, a race window can be missed",
        "TLC exhaustive for 2 readers x 3 mutations on the lock-protocol model; ThreadSanitizer and AddressSanitizer as instruments"])
    return rcode
