"""C03 C05 C07 C08 C13 C14 C17 (and the sync-driven part of C09): the protocol state machine.

M : TLC on MCRtrSocket (RtrSocket.tla handlers driven by an environment that chooses events from
    small alphabets): ghost-variable properties of the envelope (C03 outcome, C05 ack, C07 expiry,
    C13 version monotonicity, C17 ranges) and progress (C08).
A : TLC-generated event sequences (simulation of MCRtrSocket with a history variable) turned into
    cache scripts and replayed through the real FSM thread.
B : seeded conversations from lib/fsmgen.py (every misbehaviour class the properties quantify over).
A and B run the REAL rtr_fsm_start thread against harness/fsm_harness.c (scripted transport,
virtual clock) and the logged seam events are validated by RtrSocketTrace.tla with the
property's monitor as the invariant."""
import json
import os
import time

import fsmgen
import vlib
from tracecheck import TraceChecker
from vlib import InfraError

BATCH = 5000        # behaviours per harness run / trace file
BATCH_B = 150       # seeded conversations per harness run / trace file
TIERS = {
    "quick": dict(executions=120, sim_num=300, sim_max=3000, sim_depth=40, tlc_timeout=900, mc_cfg="MCRtrSocket.cfg", conv_cfg="MCRtrSocketConv.cfg"),
    "thorough": dict(executions=1500, sim_num=4000, sim_max=40000, sim_depth=60, tlc_timeout=3400, mc_cfg="MCRtrSocket_big.cfg", conv_cfg="MCRtrSocketConv_big.cfg"),
}
RELEVANT = {
    "C04": lambda e: e["e"] in ("recv", "rfault", "hang"),
    "C03": lambda e: e["e"] == "recv" and e["f"]["t"] == "eod" or e["e"] == "rfault",
    "C05": lambda e: e["e"] == "send" and e["t"] in ("reset_query", "serial_query"),
    "C07": lambda e: e["e"] in ("open", "stop"),
    "C08": lambda e: e["e"] in ("mark", "sleep", "stop"),
    "C09": lambda e: e["e"] in ("pfxcb", "spkicb"),
    "C13": lambda e: e["e"] == "send" or (e["e"] == "recv" and e["f"]["v"] != 1),
    "C14": lambda e: e["e"] in ("send", "sendbad"),
    "C17": lambda e: (e["e"] == "recv" and e["f"]["t"] == "eod") or e["e"] == "init" or (e["e"] == "rfault" and e.get("idle")),
}


def slim(e):
    e = dict(e)
    for k in ("dbg", "oth", "iv"):
        e.pop(k, None)
    if "my" in e:
        e["my"] = e["my"][:4]
    return e


def build(pid, flavour="asan"):
    objs = vlib.build_lib(pid, flavour)
    return vlib.build_harness(pid, flavour, ["fsm_harness.c"], objs, wraps=["sleep", "lrtr_get_monotonic_time"])


def projection(trace):
    """What a run did, without anything that depends on how the stream was cut into reads."""
    out = []
    for e in vlib.read_ndjson(trace):
        k = e["e"]
        if k in ("recv",):
            out.append((k, e["f"]["raw"], e["full"]))
        elif k in ("send", "sendbad", "sendfail"):
            out.append((k, e.get("t"), e.get("code"), e.get("enc"), e.get("sn"), tuple(e.get("my", []))))
        elif k in ("state", "open", "stop", "sleep"):
            out.append((k, e.get("s"), e.get("rc"), e.get("sec"), tuple(e.get("my", []))))
        elif k in ("pfxcb", "spkicb"):
            out.append((k, e["add"], e["r"]))
        elif k in ("rfault", "close", "hang", "reset"):
            out.append((k, e.get("kind")))
    return out


TOUR_FILES = ("RtrSocket.tla", "MCRtrSocket.tla", "MCRtrSocketCover.tla", "MCRtrSocketCover.cfg")


def tour_digest():
    return vlib.digest([open(os.path.join(vlib.SPEC, f)).read() for f in TOUR_FILES])


def tour_generate(tag, dest):
    """Runs TLC on MCRtrSocketCover and stores {digest, items: [{cls, evs}]} (gzip) at dest."""
    import gzip
    r = vlib.run_tlc("MCRtrSocketCover", "MCRtrSocketCover.cfg", tag, workers=8, timeout=3000, xmx="16g")
    if not r.ok:
        raise InfraError("transition tour failed: %s %s\n%s" % (r.error, r.violation, r.out[-1500:]))
    items = vlib.parse_behaviours(r.out)
    d = {"digest": tour_digest(), "states": r.distinct, "transitions": r.generated, "wall_s": round(r.wall, 1), "items": items}
    tmp = dest + ".%d" % os.getpid()
    with gzip.open(tmp, "wt") as f:
        json.dump(d, f)
    os.replace(tmp, dest)
    return d


def tour(pid, every_path):
    """Behaviours that reach every transition class of MCRtrSocketCover.tla.  They depend on the specification only (never on
    the code under test), so the result of the TLC run is committed as spec/tour/MCRtrSocketCover.json.gz together with the
    digest of the spec files it was made from; when the files have changed it is regenerated (into build/cache)."""
    import gzip
    dg = tour_digest()
    d = None
    committed = os.path.join(vlib.SPEC, "tour", "MCRtrSocketCover.json.gz")
    cached = os.path.join(vlib.VERIF, "build", "cache", "tour-%s.json.gz" % dg)
    for path in (cached, committed):
        if os.path.exists(path):
            try:
                with gzip.open(path, "rt") as f:
                    dd = json.load(f)
                # a tour made from an earlier version of the spec files is still a set of legal inputs for the client (the
                # trace specification judges what is observed, whatever the script): it is used, and reported as stale
                d, src = dd, os.path.relpath(path, vlib.VERIF) + ("" if dd.get("digest") == dg else " (made from earlier spec files: run tools/gen_tour.py)")
                break
            except (ValueError, OSError, EOFError):
                pass
    if d is None:
        vlib.mkdir(os.path.join(vlib.VERIF, "build", "cache"))
        d, src = tour_generate(pid + "-tour", cached), "generated (no committed tour found)"
    by = {}
    for it in d["items"]:
        by.setdefault(vlib.digest(it["cls"]), []).append(it["evs"])
    if every_path:
        seen, behs = set(), []
        for v in by.values():
            for b in v:
                k = vlib.digest(b)
                if k not in seen:
                    seen.add(k)
                    behs.append(b)
    else:
        behs = [min(v, key=len) for v in by.values()]
    info = {"classes": len(by), "model_states": d.get("states"), "model_transitions": d.get("transitions"), "source": src,
            "paths_per_class": "all found by the 8 TLC workers" if every_path else "shortest"}
    return behs, info


def run_c04(ctx, verdict, wd, P):
    """Hostile byte streams, assertions enabled (asan-assert flavour: ASan + UBSan fatal, -UNDEBUG), every stream
    delivered byte by byte and in random chunks; both runs must be accepted with identical outcomes."""
    pid, seed = ctx.pid, ctx.seed
    exe = build(pid, "asan-assert")
    tc = TraceChecker(ctx, verdict, wd, "RtrSocketTrace", "RtrSocketTrace.cfg", "OK_C04", timeout=P["tlc_timeout"])
    scripts = []
    sh = os.path.join(wd, "script_hostile.ndjson")
    fsmgen.write_hostile_script(sh, seed, P["executions"])
    scripts.append(("H", sh))
    sb = os.path.join(wd, "script_conv.ndjson")
    fsmgen.write_script(sb, seed, max(20, P["executions"] // 3))
    scripts.append(("B", sb))
    if ctx.replay:
        meta = json.load(open(os.path.join(ctx.replay, "meta.json")))
        scripts = [("replay", os.path.join(ctx.replay, os.path.basename(meta["script"])))]
    cov = {"runs": []}
    evs_all = []
    for tag, sc in scripts:
        projs = {}
        for ch in ("1", "-1"):
            trace = os.path.join(wd, "trace%s_%s.ndjson" % (tag, "byte" if ch == "1" else "rand"))
            env = dict(vlib.SAN_ENV, VH_CHUNK=ch, VH_ALARM="900", UBSAN_OPTIONS="print_stacktrace=1:halt_on_error=1")
            rc, out = vlib.sh([exe, sc, trace], env=env, timeout=1000)
            meta = {"mode": "script", "script": sc, "seed": seed, "chunk": ch}
            if rc != 0:
                mpath = os.path.join(wd, "meta.json")
                json.dump(meta, open(mpath, "w"))
                rp = vlib.save_replay(pid, "%s-crash-seed%d" % (tag, seed), [mpath, sc])
                m = [l for l in out.splitlines() if "SUMMARY:" in l or "Assertion" in l or "runtime error" in l]
                sig = (m[0] if m else out[-200:]).strip()[:160]
                verdict.deviation("C04:%s" % ("hang" if rc == 3 else "abort"), "client ended with exit %d under hostile stream (chunk mode %s): %s" % (rc, ch, sig), rp)
                continue
            tc.validate(trace, tag + ch, meta, [sc])
            projs[ch] = projection(trace)
            evs_all += vlib.read_ndjson(trace)
        if len(projs) == 2 and projs["1"] != projs["-1"]:
            i = next(k for k in range(min(len(projs["1"]), len(projs["-1"]))) if projs["1"][k] != projs["-1"][k]) if \
                any(a != b for a, b in zip(projs["1"], projs["-1"])) else min(len(projs["1"]), len(projs["-1"]))
            mpath = os.path.join(wd, "meta.json")
            json.dump({"mode": "script", "script": sc, "seed": seed}, open(mpath, "w"))
            rp = vlib.save_replay(pid, "%s-chunking-seed%d" % (tag, seed), [mpath, sc])
            verdict.deviation("C04:chunking-changes-outcome", "byte-wise and random chunking diverge at projected event %d: %s vs %s"
                              % (i, str(projs["1"][i:i + 1])[:200], str(projs["-1"][i:i + 1])[:200]), rp)
        cov["runs"].append({"script": os.path.basename(sc), "chunkings": ["byte-at-a-time", "random"],
                            "projected_events": len(projs.get("1", []))})
    return tc, cov, evs_all


def run(ctx):
    pid, tier, seed = ctx.pid, ctx.tier, ctx.seed
    P = TIERS[tier]
    t0 = time.time()
    verdict = vlib.Verdict(pid)
    wd = vlib.mkdir(os.path.join(vlib.BUILD, pid), clean=True)
    if pid == "C04":
        tc, cov, evs = run_c04(ctx, verdict, wd, P)
        if ctx.replay:
            return verdict.finish()
        rel = [e for e in evs if RELEVANT[pid](e)]
        hostile = [e for e in rel if e["e"] != "recv" or e["f"].get("t") in ("unknown", "error", "raw") or not e.get("full")
                   or e["f"]["len"]["n"] not in (8, 12, 20, 24, 32, 123)]
        rcode = verdict.finish()
        vlib.write_evidence(pid, tier, seed, "exploration", {
            "evaluations": len(rel), "distinct_nontrivial": len({vlib.digest(slim(e)) for e in hostile}),
            "rule": "frames / transport faults delivered to the real client (asan-assert build: ASan, UBSan fatal, assertions on) under two chunkings; non-trivial = malformed, unknown-type, Error Report, truncated or partially consumed frame; every trace validated by RtrSocketTrace.tla with OK_C04 (no hang, tables and callbacks change only as the envelope predicts)",
            "samples": [slim(e) for e in hostile[:3]], "traces_validated_against_impl": tc.traces, "events_validated": tc.events,
            "explanation": "TLA+ decides the outcome function (well-formedness classes, never applied, exchange fails); memory safety, assertions and termination are decided by the sanitizer build and the harness watchdog",
            "detail": cov,
        }, time.time() - t0, len(verdict.violations), [
            "finite seeded sample of streams; sanitizers (ASan/UBSan without the alignment check) and assertions as instruments",
            "streams stay framed for the harness (a frame's bytes match its length field when 8..4000), other length values make the client give up after the header",
        ])
        return rcode
    exe = build(pid)
    inv = "OK_" + pid
    tc = TraceChecker(ctx, verdict, wd, "RtrSocketTrace", "RtrSocketTrace.cfg", inv, timeout=P["tlc_timeout"])
    cov = {}

    def harness(script, tag, meta):
        trace = os.path.join(wd, "trace%s.ndjson" % tag)
        rc, out = vlib.sh([exe, script, trace], env=dict(vlib.SAN_ENV, VH_ALARM="900"), timeout=1000)
        if rc != 0:
            mpath = os.path.join(wd, "meta.json")
            json.dump(meta, open(mpath, "w"))
            rp = vlib.save_replay(pid, "%s-crash-seed%d" % (tag, seed), [mpath, script])
            what = "hang (no progress of virtual time or input)" if rc == 3 else "crash/abort"
            verdict.deviation("%s:harness-%s-%s" % (pid, "hang" if rc == 3 else "crash", tag),
                              "the client under the scripted cache ended with exit %d (%s): %s" % (rc, what, out[-1200:]), rp)
            if not os.path.exists(trace) or rc != 3 or os.path.getsize(trace) > 500000000:
                return None, out          # (a trace that hit the size cap is a hang already reported; it is not validated)
        tc.validate(trace, tag, meta, [script])
        return trace, out

    if ctx.replay:
        meta = json.load(open(os.path.join(ctx.replay, "meta.json")))
        sc = os.path.join(ctx.replay, os.path.basename(meta["script"]))
        if meta.get("flavour") == "msan":
            exe_m = build(pid + "-msan", "msan")
            rc_m, out_m = vlib.sh([exe_m, sc, os.path.join(wd, "replay-msan.ndjson")], env=dict(vlib.SAN_ENV, VH_ALARM="900"), timeout=1000)
            if rc_m != 0:
                verdict.deviation("C14:uninitialised-byte-sent" if rc_m == 97 else "C14:msan-abort", out_m[-600:], ctx.replay)
            return verdict.finish()
        harness(sc, "replay", meta)
        return verdict.finish()

    # ---- M
    r = vlib.tlc_model("MCRtrSocket", P["mc_cfg"], pid + "-model", workers=16, timeout=P["tlc_timeout"], xmx="24g", coverage=True)
    cov["model"] = {"spec": "MCRtrSocket.tla (RtrSocket.tla handlers)", "cfg": P["mc_cfg"], **r.summary(),
                    "checked": "P_C03 P_C05 P_C07 P_C13 P_C17 I_Types", "action_coverage": {k: v[1] for k, v in r.coverage.items()}}
    dead = [k for k, v in r.coverage.items() if v[1] == 0 and k != "Init"]
    if dead:
        raise InfraError("vacuity: actions never taken in MCRtrSocket: %s" % dead)

    if pid in ("C14", "C17"):
        # the transport loops every PDU goes through (tr_send_all / tr_recv_all): all or error, one deadline per invocation
        rt = vlib.tlc_model("TrAll", "TrAll.cfg", pid + "-trall", workers=4, timeout=600)
        cov["model_transport_loops"] = {"spec": "TrAll.tla", "cfg": "TrAll.cfg", **rt.summary(), "checked": "AllOrError OneDeadline InTime",
                                        "bound_by": "CallsOK monitor (timeouts the client hands to the transport stub, per header / body / PDU written)"}
    if pid == "C08":
        # convergence of the envelope: adversarial prefix, then a correct cache for ever (MCRtrSocketConv.tla)
        rc_ = vlib.tlc_model("MCRtrSocketConv", P["conv_cfg"], pid + "-conv", workers=16, timeout=P["tlc_timeout"], xmx="24g", coverage=True)
        cov["model_convergence"] = {"spec": "MCRtrSocketConv.tla", "cfg": P["conv_cfg"], **rc_.summary(),
                                    "checked": "I_Conv (ESTABLISHED with the cache's data within K client steps of the cache turning correct) "
                                               "I_Progress I_Target P_Stay + the wall-clock bound of the C08 monitor (I_NoMonitorFails)",
                                    "action_coverage": {k: v[1] for k, v in rc_.coverage.items()}}
        dead = [k for k, v in rc_.coverage.items() if v[1] == 0 and k != "InitC"]
        if dead:
            raise InfraError("vacuity: actions never taken in MCRtrSocketConv: %s" % dead)

    # ---- A: TLC-generated conversations
    import mcscript
    behs = vlib.tlc_behaviours("MCRtrSocket", "MCRtrSocket_sim.cfg", pid + "-simA", P["sim_num"], P["sim_depth"] + 1, seed,
                               workers=8, emit_depth=P["sim_depth"])[:P["sim_max"]]
    def batches(bs, tag):
        """generated behaviours go through the harness and TLC in batches (a trace file is read into memory whole)"""
        n_lines = n_events = 0
        for bi in range(0, len(bs), BATCH):
            sc = os.path.join(wd, "script%s%d.ndjson" % (tag, bi // BATCH))
            n_lines += mcscript.behaviours_to_script(bs[bi:bi + BATCH], sc)
            tr, _ = harness(sc, "%s%d" % (tag, bi // BATCH), {"mode": "script", "script": sc, "seed": seed})
            n_events += sum(1 for _ in open(tr)) if tr else 0
        return n_lines, n_events
    nA, evA = batches(behs, "A")
    cov["binding_A"] = {"behaviours": len(behs), "script_lines": nA, "events": evA, "generator": "tlc -simulate MCRtrSocket_sim.cfg"}

    # ---- T: transition tour of the model (one run of the real client per kind of transition the envelope has)
    behsT, tinfo = tour(pid, tier == "thorough")
    nT, evT = batches(behsT, "T")
    cov["binding_T"] = dict(tinfo, behaviours=len(behsT), script_lines=nT, events=evT,
                            generator="tlc MCRtrSocketCover.cfg: shortest behaviour (TLCExt!Trace) to every class of transition (abstract client state x event class)")

    # ---- B: seeded conversations with every misbehaviour class
    # (in batches of BATCH_B conversations, each batch with its own seed; the quick tier is one batch)
    nB, evs, kinds, ubsan, msan_runs = 0, [], {}, 0, []
    for bi in range(0, P["executions"], BATCH_B):
        nex = min(BATCH_B, P["executions"] - bi)
        bseed = seed if bi == 0 else seed * 100003 + bi
        tagB = "B" if bi == 0 else "B%d" % (bi // BATCH_B)
        scriptB = os.path.join(wd, "script%s.ndjson" % tagB)
        nB += fsmgen.write_script(scriptB, bseed, nex)
        traceB, outB = harness(scriptB, tagB, {"mode": "script", "script": scriptB, "seed": bseed})
        ubsan += outB.count("runtime error:")
        if pid == "C14":
            # instrument of the binding step: the same conversations in a MemorySanitizer build; the harness
            # asks MSan about every byte handed to the transport send function
            exe_m = build(pid + "-msan", "msan")
            rc_m, out_m = vlib.sh([exe_m, scriptB, os.path.join(wd, "traceB-msan.ndjson")], env=dict(vlib.SAN_ENV, VH_ALARM="900"), timeout=1000)
            msan_runs.append({"exit": rc_m, "script": os.path.basename(scriptB)})
            if rc_m != 0:
                mpath = os.path.join(wd, "meta.json")
                json.dump({"mode": "script", "script": scriptB, "seed": bseed, "flavour": "msan"}, open(mpath, "w"))
                rp = vlib.save_replay(pid, "%s-msan-seed%d" % (tagB, seed), [mpath, scriptB])
                verdict.deviation("C14:uninitialised-byte-sent" if rc_m == 97 else "C14:msan-abort",
                                  "MemorySanitizer build: %s" % out_m[-600:], rp)
        bevs = vlib.read_ndjson(traceB, limit=400000) if traceB else []
        for e in bevs:
            kinds[e["e"]] = kinds.get(e["e"], 0) + 1
        if bi == 0:
            evs = bevs
        if traceB and bi > 0:
            os.remove(traceB)          # later batches are kept only when they become replays
    if pid == "C14":
        cov["msan_pass"] = msan_runs
    cov["binding_B"] = {"executions": P["executions"], "script_lines": nB, "events": sum(kinds.values()), "by_kind": kinds,
                        "ubsan_reports_diagnostic": ubsan}
    ta0 = os.path.join(wd, "traceA0.ndjson")
    allev = evs + (vlib.read_ndjson(ta0, limit=400000) if os.path.exists(ta0) else [])
    rel = [e for e in allev if RELEVANT[pid](e)]
    distinct = len({vlib.digest(slim(e)) for e in rel})
    rcode = verdict.finish()
    vlib.write_evidence(pid, tier, seed, "model_checking", {
        "states": r.distinct, "transitions": r.generated, "traces_validated_against_impl": tc.traces,
        "samples": [slim(e) for e in rel[:3]],
        "evaluations": len(rel), "distinct_nontrivial": distinct,
        "rule": "seam events relevant to %s (see RELEVANT in lib/checks/fsm.py) in traces of the real FSM thread, each checked by monitor %s of RtrSocketTrace.tla; distinct = different event content ignoring diagnostics" % (pid, inv),
        "checker_cmd": "tlc MCRtrSocket %s; tlc RtrSocketTrace (INVARIANT %s, POSTCONDITION TraceAccepted)" % (P["mc_cfg"], inv),
        "events_validated": tc.events,
        "known_findings_hit": [k for k, _ in verdict.known],
        "detail": cov,
    }, time.time() - t0, len(verdict.violations), [
        "TLC results are exhaustive only for the small alphabets stated in the cfg header",
        "code-side runs are finite seeded samples of conversations; the simulated cache closes the connection once it has received an Error Report",
        "NDEBUG build flavour with ASan; virtual clock via --wrap=sleep,lrtr_get_monotonic_time; UBSan reports are diagnostics here",
        "trusted: TLC, the harness's PDU encoder/decoder and event logging",
    ])
    return rcode
