"""C19: address text conversion.  IpText.tla enumerates the RFC 4291 text forms (every zero-run position and
length, spellings, embedded IPv4) with the address each denotes; the harness runs the library and the platform's
inet_pton on them, on structured/seeded IPv4 and IPv6 addresses (format, bounded writes, round trips) and on
truncations / single-character mutations of valid strings; IpTextTrace.tla decides every line."""
import json
import os
import random
import re
import time

import vlib
from tracecheck import TraceChecker


def run(ctx):
    pid, tier, seed = ctx.pid, ctx.tier, ctx.seed
    t0 = time.time()
    verdict = vlib.Verdict(pid)
    wd = vlib.mkdir(os.path.join(vlib.BUILD, pid), clean=True)
    objs = vlib.build_lib(pid, "asan")
    exe = vlib.build_harness(pid, "asan", ["ip_harness.c"], objs)
    tc = TraceChecker(ctx, verdict, wd, "IpTextTrace", "IpTextTrace.cfg", "OK_C19", timeout=1200)
    script = os.path.join(wd, "script.ndjson")
    if ctx.replay:
        script = os.path.join(ctx.replay, "script.ndjson")
    else:
        r = vlib.run_tlc("IpText", "IpText.cfg", pid + "-gen", workers=1, timeout=300)
        m = re.search(r'<<"CASES", "((?:[^"\\]|\\.)*)">>', r.out)
        if not m:
            raise vlib.InfraError("IpText.tla produced no cases: %s" % r.out[-500:])
        cases = json.loads(json.loads('"' + m.group(1) + '"'))
        rnd = random.Random(seed)
        n4 = 3000 if tier == "quick" else 120000
        n6 = 1500 if tier == "quick" else 40000
        with open(script, "w") as f:
            for c in cases:
                f.write(json.dumps({"op": "parse", "text": c["text"], "exp": c["words"]}) + "\n")
            # derived strings: truncations and single-character mutations (only the one-directional claims apply)
            for c in rnd.sample(cases, 400 if tier == "quick" else 3000):
                t = c["text"]
                for k in range(len(t)):
                    f.write(json.dumps({"op": "parse", "text": t[:k]}) + "\n")
                for _ in range(6):
                    k = rnd.randrange(len(t))
                    f.write(json.dumps({"op": "parse", "text": t[:k] + rnd.choice(":.0fFgx% 9") + t[k + 1:]}) + "\n")
            for t in ["1:2:3", "1:2:3:4:5:6:7", "1:2:3:4:5:6:7:8:9", ":", ":::", "1::2::3", "12345::", "::1.2.3", "1.2.3.4", "255.255.255.255",
                      "0.0.0.0", "1.2.3", "1.2.3.4.5", "256.1.1.1", "01.2.3.4", "1.2.3.4 ", " 1.2.3.4", "", "a.b.c.d", "1:2:3:4:5:6:7:1.2.3.4"]:
                f.write(json.dumps({"op": "parse", "text": t}) + "\n")
            # IPv4: all 2^16 combinations of two octets x structured others (thorough), structured + seeded sample (quick)
            for a in ([0, 1, 9, 10, 99, 100, 127, 128, 199, 200, 254, 255] if tier == "quick" else range(256)):
                for b in ([0, 1, 9, 10, 99, 100, 127, 128, 199, 200, 254, 255] if tier == "quick" else range(256)):
                    x = (a << 24) | (rnd.choice([0, 1, 255, 10, 100]) << 16) | (b << 8) | rnd.choice([0, 1, 255, 10, 100])
                    f.write(json.dumps({"op": "fmt", "fam": 4, "w": [x >> 16, x & 0xffff]}) + "\n")
            for _ in range(n4):
                x = rnd.getrandbits(32)
                f.write(json.dumps({"op": "fmt", "fam": 4, "w": [x >> 16, x & 0xffff]}) + "\n")
            # IPv6: every zero/non-zero pattern, embedded-IPv4 shapes, seeded sample
            for p in range(256):
                w = [rnd.choice([1, 0xff, 0xffff, 0xabcd, 0x1234]) if (p >> i) & 1 else 0 for i in range(8)]
                f.write(json.dumps({"op": "fmt", "fam": 6, "w": w}) + "\n")
            for w in ([0, 0, 0, 0, 0, 0, 258, 772], [0, 0, 0, 0, 0, 65535, 258, 772], [0, 0, 0, 0, 0, 0, 0, 1], [0, 0, 0, 0, 0, 0, 1, 0],
                      [0, 0, 0, 0, 0, 65535, 0, 0], [0, 0, 0, 0, 65535, 65535, 1, 1], [0, 0, 0, 0, 0, 1, 2, 3], [0] * 8, [65535] * 8):
                f.write(json.dumps({"op": "fmt", "fam": 6, "w": w}) + "\n")
            for _ in range(n6):
                w = [rnd.choice([0, 0, rnd.getrandbits(16), rnd.getrandbits(4)]) for _ in range(8)]
                f.write(json.dumps({"op": "fmt", "fam": 6, "w": w}) + "\n")
    trace = os.path.join(wd, "trace.ndjson")
    rc, out = vlib.sh([exe, script, trace], env=vlib.SAN_ENV, timeout=900)
    if rc != 0:
        rp = vlib.save_replay(pid, "crash-seed%d" % seed, [script])
        verdict.deviation("C19:harness-crash", "exit %d: %s" % (rc, out[-600:]), rp)
    else:
        tc.validate(trace, "text", {"mode": "script", "script": script, "seed": seed}, [script])
    # the same script in a MemorySanitizer build: an accepted parse result must not contain never-written bytes
    objs_m = vlib.build_lib(pid + "-msan", "msan")
    exe_m = vlib.build_harness(pid + "-msan", "msan", ["ip_harness.c"], objs_m)
    trace_m = os.path.join(wd, "trace_msan.ndjson")
    rc, out = vlib.sh([exe_m, script, trace_m], env=vlib.SAN_ENV, timeout=900)
    if rc != 0:
        rp = vlib.save_replay(pid, "msan-abort-seed%d" % seed, [script])
        verdict.deviation("C19:msan-abort", "MemorySanitizer build exit %d: %s" % (rc, out[-600:]), rp)
    else:
        tc.validate(trace_m, "msan", {"mode": "script", "script": script, "seed": seed}, [script])
    if ctx.replay:
        return verdict.finish()
    evs = vlib.read_ndjson(trace) if os.path.exists(trace) else []
    rcode = verdict.finish()
    vlib.write_evidence(pid, tier, seed, "exploration", {
        "evaluations": len(evs), "distinct_nontrivial": len({e.get("text") for e in evs if e.get("rc1") == 1 or e["e"] == "fmt"}),
        "rule": "parse and format calls; cases = RFC 4291 forms enumerated by IpText.tla (%d), truncations/mutations, structured and seeded addresses; non-trivial = distinct text accepted by the library or produced by it; oracle = inet_pton + the generator's denoted address, decided line by line by IpTextTrace.tla" % len([e for e in evs if "exp" in e]),
        "samples": [e for e in evs if "exp" in e][:2] + [e for e in evs if e["e"] == "fmt"][:2],
        "traces_validated_against_impl": tc.traces, "generator_cases": len([e for e in evs if "exp" in e]),
        "explanation": "TLA+ is used as the generator of the input space and as the line-by-line judge; the oracle for acceptance is the platform's inet_pton",
        "known_findings_hit": [k for k, _ in verdict.known],
    }, time.time() - t0, len(verdict.violations), ["glibc inet_pton as the external oracle", "ASan build; canary bytes after every output buffer"])
    return rcode
