"""C15: cache-group manager.  M: TLC on MCRtrMgr (RtrMgr.tla as coded, all sequences of legal socket
state changes / expiries / add / remove over small configurations; the four clauses of C15 as action
properties).  A: TLC-generated event sequences replayed into the real rtr_mgr code (rtr_start/rtr_stop
link-wrapped).  B: seeded random configurations and event sequences, incl. invalid configurations.
Traces validated by RtrMgrTrace.tla."""
import json
import os
import random
import time

import vlib
from tracecheck import TraceChecker
from vlib import InfraError

STATES = ["CONNECTING", "ESTABLISHED", "RESET", "SYNC", "FAST_RECONNECT", "ERR_NODATA", "ERR_NOINCR", "ERR_FATAL", "ERR_TRANSPORT"]
LEGAL = {"CONNECTING": ["RESET", "SYNC", "ERR_TRANSPORT", "ERR_FATAL"], "RESET": ["SYNC", "ERR_TRANSPORT"],
         "SYNC": ["ESTABLISHED", "ERR_FATAL", "ERR_TRANSPORT", "ERR_NODATA", "ERR_NOINCR", "FAST_RECONNECT"],
         "ESTABLISHED": ["SYNC", "ERR_TRANSPORT", "ERR_FATAL"], "FAST_RECONNECT": ["CONNECTING"],
         "ERR_NODATA": ["RESET"], "ERR_NOINCR": ["RESET"], "ERR_FATAL": ["CONNECTING"], "ERR_TRANSPORT": ["CONNECTING"]}
TIERS = {"quick": dict(cfgs=["MCRtrMgr_g3.cfg", "MCRtrMgr_g22.cfg"], sim=8, runs=150, steps=60, tlc_timeout=900),
         "thorough": dict(cfgs=["MCRtrMgr_g3.cfg", "MCRtrMgr_dyn.cfg", "MCRtrMgr_g22.cfg"], sim=100, runs=3000, steps=120, tlc_timeout=3400)}


def random_script(rnd, f, runs, steps):
    n = 0
    for _ in range(runs):
        kind = rnd.random()
        if kind < 0.12:      # invalid configurations must be rejected (and must not crash)
            bad = rnd.choice(["empty", "nosock", "dup", "dup3"])
            if bad == "empty":
                groups = []
            elif bad == "nosock":
                groups = [{"pref": rnd.randrange(10), "n": rnd.choice([0, 1])} for _ in range(rnd.randrange(1, 4))]
                groups[rnd.randrange(len(groups))]["n"] = 0
            elif bad == "dup":
                p = rnd.randrange(10)
                groups = [{"pref": p, "n": 1}, {"pref": p, "n": rnd.choice([1, 2])}]
                if rnd.random() < 0.5:
                    groups.insert(rnd.randrange(3), {"pref": (p + 3) % 10, "n": 1})
            else:            # duplicates that are not adjacent in the order given
                p, q = rnd.sample(range(10), 2)
                groups = [{"pref": p, "n": 1}, {"pref": q, "n": 1}, {"pref": p, "n": 2}]
            f.write(json.dumps({"op": "init", "groups": groups}) + "\n")
            n += 1
            continue
        prefs = rnd.sample(range(10), rnd.randrange(1, 4))
        groups = [{"pref": p, "n": rnd.choice([1, 1, 2])} for p in prefs]
        f.write(json.dumps({"op": "init", "groups": groups}) + "\n")
        f.write(json.dumps({"op": "start"}) + "\n")
        ns = {g["pref"]: g["n"] for g in groups}
        cur = {}
        for _ in range(steps):
            r = rnd.random()
            if r < 0.05 and len(ns) < 4:
                p = rnd.randrange(10)
                f.write(json.dumps({"op": "add", "pref": p, "n": rnd.choice([1, 2])}) + "\n")
                ns.setdefault(p, 2)
            elif r < 0.09:
                p = rnd.choice(list(ns) + [rnd.randrange(10)])
                f.write(json.dumps({"op": "rm", "pref": p}) + "\n")
            elif r < 0.13:
                p = rnd.choice(list(ns))
                f.write(json.dumps({"op": "expire", "g": p, "i": rnd.randrange(1, 3)}) + "\n")
            else:
                p = rnd.choice(list(ns))
                i = rnd.randrange(1, 3)
                last = cur.get((p, i), "CONNECTING")
                st = rnd.choice(LEGAL.get(last, STATES)) if rnd.random() < 0.85 else rnd.choice(STATES)
                cur[(p, i)] = st
                f.write(json.dumps({"op": "sock", "g": p, "i": i, "st": st}) + "\n")
            n += 1
    return n


def behaviours_to_script(behs, init_groups, f):
    n = 0
    for beh in behs:
        f.write(json.dumps({"op": "init", "groups": init_groups}) + "\n")
        f.write(json.dumps({"op": "start"}) + "\n")
        for e in beh:
            o = dict(e)
            o["op"] = o.pop("e")
            f.write(json.dumps(o) + "\n")
            n += 1
    return n


def run(ctx):
    pid, tier, seed = ctx.pid, ctx.tier, ctx.seed
    P = TIERS[tier]
    t0 = time.time()
    verdict = vlib.Verdict(pid)
    wd = vlib.mkdir(os.path.join(vlib.BUILD, pid), clean=True)
    objs = vlib.build_lib(pid, "asan")
    exe = vlib.build_harness(pid, "asan", ["mgr_harness.c"], objs, wraps=["rtr_start", "rtr_stop"])
    tc = TraceChecker(ctx, verdict, wd, "RtrMgrTrace", "RtrMgrTrace.cfg", "OK_C15", timeout=P["tlc_timeout"])

    def harness(script, tag, meta):
        trace = os.path.join(wd, "trace%s.ndjson" % tag)
        rc, out = vlib.sh([exe, script, trace], env=vlib.SAN_ENV, timeout=600)
        if rc != 0:
            last = ""
            if os.path.exists(trace):
                ls = open(trace).read().splitlines()
                last = ls[-1] if ls else ""
            mpath = os.path.join(wd, "meta.json")
            json.dump(meta, open(mpath, "w"))
            rp = vlib.save_replay(pid, "%s-crash-seed%d" % (tag, seed), [mpath, script])
            site = "rtr_mgr_init-error-path" if '"what":"init"' in last else "other"
            verdict.deviation("%s:crash@%s" % (pid, site), "rtr_mgr crashed (exit %d) after trace line %s: %s" % (rc, last[:200], out[-900:]), rp)
            return None
        tc.validate(trace, tag, meta, [script])
        return trace

    if ctx.replay:
        meta = json.load(open(os.path.join(ctx.replay, "meta.json")))
        if meta.get("mode") == "stub":
            exe_s = vlib.build_harness(pid, "asan", ["fsm_harness.c"], objs, wraps=["sleep", "lrtr_get_monotonic_time"], exe="h_fsm")
            tcs = TraceChecker(ctx, verdict, wd, "RtrSocketTrace", "RtrSocketTrace.cfg", "OK_STUB", timeout=P["tlc_timeout"])
            sc = os.path.join(ctx.replay, os.path.basename(meta["script"]))
            tr = os.path.join(wd, "traceS.ndjson")
            rc_s, out_s = vlib.sh([exe_s, sc, tr], env=dict(vlib.SAN_ENV, VH_ALARM="120"), timeout=400)
            if rc_s != 0:
                verdict.deviation("C15:socket-layer-%s" % ("silent-after-start" if rc_s == 3 else "crash"), "exit %d: %s" % (rc_s, out_s[-600:]), ctx.replay)
            else:
                tcs.validate(tr, "S", meta, [sc])
            return verdict.finish()
        harness(os.path.join(ctx.replay, os.path.basename(meta["script"])), "replay", meta)
        return verdict.finish()

    models = []
    for cfg in P["cfgs"]:
        r = vlib.tlc_model("MCRtrMgr", cfg, pid + "-model", workers=16, timeout=P["tlc_timeout"], xmx="24g")
        models.append({"spec": "MCRtrMgr.tla", "cfg": cfg, **r.summary(), "checked": "C15_P1 C15_P2 C15_P3 C15_P4 C15_I1 C15_I2"})
    behs = vlib.tlc_behaviours("MCRtrMgr", "MCRtrMgr_sim.cfg", pid + "-simA", P["sim"], 41, seed)
    scriptA = os.path.join(wd, "scriptA.ndjson")
    with open(scriptA, "w") as f:
        nA = behaviours_to_script(behs, [{"pref": 2, "n": 1}, {"pref": 3, "n": 2}], f)
    trA = harness(scriptA, "A", {"mode": "script", "script": scriptA, "seed": seed})
    scriptB = os.path.join(wd, "scriptB.ndjson")
    with open(scriptB, "w") as f:
        nB = random_script(random.Random(seed), f, P["runs"], P["steps"])
    trB = harness(scriptB, "B", {"mode": "script", "script": scriptB, "seed": seed})
    evs = (vlib.read_ndjson(trA) if trA else []) + (vlib.read_ndjson(trB) if trB else [])
    rel = [e for e in evs if e["e"] not in ("pre", "end")]
    nontriv = [e for e in rel if e.get("reports") or e.get("started") or e.get("stopped") or e.get("rc") not in (None, "ok")]
    # ---- S: the assumptions RtrMgr.tla and the rtr_start / rtr_stop stubs make about the socket layer, checked on the real
    # rtr_start / rtr_stop with a real FSM thread: a stopped socket is RTR_CLOSED with its bookkeeping reset, and starting it
    # again makes it open its transport (a socket that stays silent is reported as a hang by the harness)
    import fsmgen
    exe_s = vlib.build_harness(pid, "asan", ["fsm_harness.c"], objs, wraps=["sleep", "lrtr_get_monotonic_time"], exe="h_fsm")
    tcs = TraceChecker(ctx, verdict, wd, "RtrSocketTrace", "RtrSocketTrace.cfg", "OK_STUB", timeout=P["tlc_timeout"])
    scriptS = os.path.join(wd, "scriptS.ndjson")
    nS = fsmgen.write_stopstart_script(scriptS, seed, 12 if tier == "quick" else 120)
    traceS = os.path.join(wd, "traceS.ndjson")
    rc_s, out_s = vlib.sh([exe_s, scriptS, traceS], env=dict(vlib.SAN_ENV, VH_ALARM="120"), timeout=400)
    metaS = {"mode": "stub", "script": scriptS, "seed": seed}
    if rc_s != 0:
        mpath = os.path.join(wd, "meta.json")
        json.dump(metaS, open(mpath, "w"))
        rp = vlib.save_replay(pid, "S-crash-seed%d" % seed, [mpath, scriptS])
        verdict.deviation("C15:socket-layer-%s" % ("silent-after-start" if rc_s == 3 else "crash"),
                          "a socket stopped and started again (as the manager does on every fail-over) ended with exit %d: %s" % (rc_s, out_s[-600:]), rp)
    else:
        tcs.validate(traceS, "S", metaS, [scriptS])
    tc.traces += tcs.traces
    tc.events += tcs.events
    from tracecheck import extra_conformance
    extras = [extra_conformance(ctx, wd, "RtrMgrTrace", "RtrMgrTrace.cfg", "OK_EXT", t,
                                "rtr_mgr_conf_in_sync() = some group has every socket synchronised (RtrMgr!InSync), after every step")
              for t in (trA, trB) if t]
    rcode = verdict.finish()
    vlib.write_evidence(pid, tier, seed, "model_checking", {
        "states": sum(m["distinct"] for m in models), "transitions": sum(m["generated"] for m in models),
        "traces_validated_against_impl": tc.traces, "samples": nontriv[:3] or rel[:3],
        "evaluations": len(rel), "distinct_nontrivial": len({vlib.digest(e) for e in nontriv}),
        "rule": "manager API calls / socket state changes executed on the real rtr_mgr code, each checked by RtrMgrTrace.tla (state refinement + the four clauses of C15); non-trivial = the step reported a status, started/stopped a socket or was rejected",
        "checker_cmd": "tlc MCRtrMgr (%s); tlc RtrMgrTrace (INVARIANT OK_C15, POSTCONDITION TraceAccepted)" % ", ".join(P["cfgs"]),
        "events_validated": tc.events, "known_findings_hit": [k for k, _ in verdict.known],
        "extra_conformance": extras,
        "detail": {"model": models, "binding_A": {"behaviours": len(behs), "ops": nA}, "binding_B": {"runs": P["runs"], "ops": nB}},
    }, time.time() - t0, len(verdict.violations), [
        "rtr_start/rtr_stop are replaced by stubs that reproduce their state effects (SHUTDOWN callback, reset, CLOSED); the real socket layer is C03..C08's business",
        "TLC exhaustive for the configurations named in the cfg headers; code-side runs are seeded samples; NDEBUG+ASan",
    ])
    return rcode
