"""C20: state / status names.  The enumerator lists are extracted from the public headers at check time
into spec/NamesGen.tla; TLC decides, for every integer in -3..40, what each *_to_str function must return;
the real functions are called (one forked child per value, ASan+UBSan build) and the results validated."""
import os
import re
import time

import vlib
from tracecheck import TraceChecker


def enum_names(header, enum):
    src = open(os.path.join(vlib.REPO, header)).read()
    src = re.sub(r"/\*.*?\*/", "", src, flags=re.S)
    src = re.sub(r"//.*", "", src)
    m = re.search(r"enum\s+%s\s*\{(.*?)\}" % enum, src, re.S)
    if not m:
        raise vlib.InfraError("enum %s not found in %s" % (enum, header))
    names = []
    for part in m.group(1).split(","):
        part = part.strip()
        if not part:
            continue
        if "=" in part:
            raise vlib.InfraError("enumerator with explicit value in %s: %s (generator assumes consecutive values)" % (enum, part))
        names.append(part)
    return names


def run(ctx):
    pid, tier, seed = ctx.pid, ctx.tier, ctx.seed
    t0 = time.time()
    verdict = vlib.Verdict(pid)
    wd = vlib.mkdir(os.path.join(vlib.BUILD, pid), clean=True)
    states = enum_names("rtrlib/rtr/rtr.h", "rtr_socket_state")
    stats = enum_names("rtrlib/rtr_mgr.h", "rtr_mgr_status")
    gen = "---- MODULE NamesGen ----\n\\* generated from rtrlib/rtr/rtr.h and rtrlib/rtr_mgr.h by lib/checks/names.py\n" \
          "SocketStates == <<%s>>\nMgrStatuses == <<%s>>\n====\n" % (", ".join('"%s"' % n for n in states), ", ".join('"%s"' % n for n in stats))
    open(os.path.join(vlib.SPEC, "NamesGen.tla"), "w").write(gen)
    # UBSan is fatal in this build: an index outside the name table is a violation even when the stray read is harmless
    objs = vlib.build_lib(pid, "asan-assert")
    exe = vlib.build_harness(pid, "asan-assert", ["names_harness.c"], objs)
    lo, hi = (-3, 40) if tier == "quick" else (-300, 1000)
    trace = os.path.join(wd, "trace.ndjson")
    rc, out = vlib.sh([exe, str(lo), str(hi)], env=dict(vlib.SAN_ENV, UBSAN_OPTIONS="halt_on_error=1:print_stacktrace=0"), timeout=600)
    lines = [l for l in out.splitlines() if l.startswith('{"e":"name"')]
    open(trace, "w").write("\n".join(lines) + "\n")
    tc = TraceChecker(ctx, verdict, wd, "Names", "Names.cfg", "OK_C20", timeout=600)
    if rc != 0 or len(lines) != 2 * (hi - lo + 1):
        verdict.deviation("C20:harness-failed", "names harness exit %d, %d lines: %s" % (rc, len(lines), out[-300:]), None)
    else:
        tc.validate(trace, "enum", {"mode": "names", "range": [lo, hi], "seed": seed})
    evs = vlib.read_ndjson(trace)
    rcode = verdict.finish()
    vlib.write_evidence(pid, tier, seed, "model_checking", {
        "states": len(evs) + 1, "transitions": len(evs), "traces_validated_against_impl": tc.traces,
        "samples": [e for e in evs if e["v"] in (0, len(states) - 1, len(states))][:4],
        "exhaustive": True, "evaluations": len(evs), "distinct_nontrivial": len([e for e in evs if 0 <= e["v"] <= max(len(states), len(stats))]),
        "rule": "every integer in %d..%d for both functions; expected value decided by Names.tla from the enumerator lists extracted from the headers (%d socket states, %d group statuses)" % (lo, hi, len(states), len(stats)),
        "checker_cmd": "tlc Names (INVARIANT OK_C20, POSTCONDITION TraceAccepted)",
        "known_findings_hit": [k for k, _ in verdict.known],
    }, time.time() - t0, len(verdict.violations),
        ["enumerators have consecutive values starting at 0 (checked by the generator)", "ASan+UBSan build; a crash in the forked child is an observation"])
    return rcode
