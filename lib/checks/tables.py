"""C01 C02 C09 (prefix table) and C10 (router-key table).

M  : TLC on PfxTrie.tla (the trie algorithm, node by node; refinement to set semantics; RFC 6811
     verdicts and reasons for every query) and on PfxTable.tla / SpkiTable.tla (contract, callback
     mirror, reload protocol copy/swap/notify-diff).
A  : TLC-generated operation histories (simulation of PfxTrie / MCPfxTable / MCSpkiTable with a
     history variable) replayed through the real tables, with a full lookup sweep after every step.
B  : seeded random drivers on realistic data.
A and B both produce ndjson traces validated by PfxTableTrace.tla / SpkiTableTrace.tla with the
property's monitor as the invariant."""
import json
import os
import random
import time

import vlib
from tracecheck import TraceChecker
from vlib import InfraError

ASN_MAP = {0: "0", 1: "65001", 2: "4200000000", 99: "7"}

TIERS = {
    "quick": dict(trie_cfg="PfxTrie_quick.cfg", sim_num=3, sim_depth=24, tab_sim_num=3, episodes=40, ops=60, maxpool=60,
                  k_episodes=30, k_ops=150, k_maxpool=400, tlc_timeout=900, hash_cfgs=["HashLin_quick.cfg"], hash_seqs=4),
    "thorough": dict(trie_cfg="PfxTrie_w3.cfg", sim_num=40, sim_depth=24, tab_sim_num=40, episodes=500, ops=80, maxpool=300,
                     k_episodes=300, k_ops=300, k_maxpool=1200, tlc_timeout=3400, hash_cfgs=["HashLin_small.cfg", "HashLin_resize.cfg"], hash_seqs=40),
}
RELEVANT = {"C01": ("val",), "C02": ("add", "rm", "srcrm", "enum", "copyx"),
            "C09": ("add", "rm", "srcrm", "free", "diff", "copyx", "swap"),
            "C10": ("add", "rm", "srcrm", "get", "ski", "diff", "copyx")}


def words(bits, maxb):
    v = 0
    for b in bits:
        v = (v << 1) | b
    v <<= (maxb - len(bits))
    return [(v >> (maxb - 16 * (i + 1))) & 0xffff for i in range(maxb // 16)]


def trie_behaviours_to_script(behs, rnd, W, f):
    """Embed each PfxTrie behaviour (ops over W-bit prefixes) into a real address family and add a
    sweep of the W-bit query universe (x 2 of 4 ASNs) + an enumeration after every step."""
    universe = [[]]
    for k in range(1, W + 1):
        universe += [[(i >> (k - 1 - j)) & 1 for j in range(k)] for i in range(2 ** k)]
    n_ops = 0
    for beh in behs:
        fam = rnd.choice([4, 6])
        maxb = 32 if fam == 4 else 128
        base_len = rnd.choice([0, 0, maxb - W, rnd.randrange(0, maxb - W + 1), 15, 31 if fam == 6 else 13,
                               63 if fam == 6 else 7, 95 if fam == 6 else 29])
        base = [rnd.randrange(2) for _ in range(base_len)]
        wide_max = rnd.random() < 0.3

        def rec(o):
            bits = base + o["bits"]
            m = base_len + o["m"]
            if wide_max and o["m"] == W:
                m = maxb
            return {"f": fam, "w": words(bits, maxb), "l": len(bits), "m": m, "a": ASN_MAP[o["a"]], "s": o["s"]}

        f.write(json.dumps({"op": "reset"}) + "\n")
        f.write(json.dumps({"op": "init", "t": 1, "cbk": 1}) + "\n")
        for o in beh:
            if o["op"] in ("add", "rm"):
                f.write(json.dumps({"op": o["op"], "t": 1, "r": rec(o)}) + "\n")
            else:
                f.write(json.dumps({"op": "srcrm", "t": 1, "s": o["s"]}) + "\n")
            n_ops += 1
            for q in universe:
                qb = base + q
                host = [rnd.randrange(2) for _ in range(maxb - len(qb))] if rnd.random() < 0.3 else []
                for a in rnd.sample([0, 1, 2, 99], 2):
                    f.write(json.dumps({"op": "val", "t": 1, "q": {"f": fam, "w": words(qb + host, maxb), "l": len(qb)},
                                        "a": ASN_MAP[a], "wr": 1 if rnd.random() < 0.7 else 0}) + "\n")
            f.write(json.dumps({"op": "enum", "t": 1}) + "\n")
        f.write(json.dumps({"op": "free", "t": 1}) + "\n")
    return n_ops


def contract_behaviours_to_script(behs, kind, f):
    """MCPfxTable / MCSpkiTable behaviours already use concrete records: copy the ops and add
    observation sweeps of the live table after every step."""
    n_ops = 0
    for beh in behs:
        f.write(json.dumps({"op": "reset"}) + "\n")
        f.write(json.dumps({"op": "init", "t": 1, "cbk": 1}) + "\n")
        for o in beh:
            f.write(json.dumps(o) + "\n")
            n_ops += 1
            if kind == "pfx":
                f.write(json.dumps({"op": "enum", "t": 1}) + "\n")
                for w, l in (([0, 0], 0), ([32768, 0], 1), ([32768, 0], 2), ([49152, 0], 2), ([16384, 0], 3)):
                    f.write(json.dumps({"op": "val", "t": 1, "q": {"f": 4, "w": w, "l": l}, "a": "1", "wr": 1}) + "\n")
            else:
                for a in ("1", "2"):
                    for k in ("s1", "s2"):
                        f.write(json.dumps({"op": "get", "t": 1, "a": a, "k": k}) + "\n")
                for k in ("s1", "s2", "s3"):
                    f.write(json.dumps({"op": "ski", "t": 1, "k": k}) + "\n")
    return n_ops


def run(ctx):
    pid, tier, seed = ctx.pid, ctx.tier, ctx.seed
    P = TIERS[tier]
    kind = "spki" if pid == "C10" else "pfx"
    t0 = time.time()
    verdict = vlib.Verdict(pid)
    wd = vlib.mkdir(os.path.join(vlib.BUILD, pid), clean=True)
    objs = vlib.build_lib(pid, "asan")
    exe = vlib.build_harness(pid, "asan", ["%s_harness.c" % kind], objs)
    tmod = "PfxTableTrace" if kind == "pfx" else "SpkiTableTrace"
    inv = "OK_" + pid
    tc = TraceChecker(ctx, verdict, wd, tmod, tmod + ".cfg", inv, timeout=P["tlc_timeout"])
    cov = {}

    def harness(args, tag, meta, extra=()):
        trace = os.path.join(wd, "trace%s.ndjson" % tag)
        env = dict(vlib.SAN_ENV, VH_NONCANON="1") if pid in ("C02", "C09") else vlib.SAN_ENV
        rc, out = vlib.sh([exe] + args + [trace], env=env, timeout=300 if tier == "quick" else 1800)
        if rc != 0:
            mpath = os.path.join(wd, "meta.json")
            json.dump(meta, open(mpath, "w"))
            rp = vlib.save_replay(pid, "%s-crash-seed%d" % (tag, seed), [mpath] + list(extra))
            verdict.deviation("%s:harness-crash-%s" % (pid, tag), "harness exit %d: %s" % (rc, out[-1500:]), rp)
            return None, out
        tc.validate(trace, tag, meta, extra)
        return trace, out

    if ctx.replay:
        meta = json.load(open(os.path.join(ctx.replay, "meta.json")))
        if meta["mode"] == "hash":
            exe_h = vlib.build_harness(pid, "asan", ["hashlin_harness.c"], objs, exe="h_hashlin")
            tch = TraceChecker(ctx, verdict, wd, "HashLinTrace", "HashLinTrace.cfg", "OK_C10", timeout=P["tlc_timeout"])
            sc = os.path.join(ctx.replay, os.path.basename(meta["script"]))
            ht = os.path.join(wd, "traceH.ndjson")
            rc, out = vlib.sh([exe_h, sc, ht], env=vlib.SAN_ENV, timeout=600)
            if rc != 0:
                verdict.deviation("C10:hashlin-crash", "exit %d: %s" % (rc, out[-800:]), ctx.replay)
            else:
                tch.validate(ht, "H", meta, [sc])
        elif meta["mode"] == "gen":
            harness(["gen"] + [str(x) for x in meta["args"]], "replay", meta)
        else:
            sc = os.path.join(ctx.replay, os.path.basename(meta["script"]))
            harness(["script", sc], "replay", meta, [sc])
        return verdict.finish()

    # ---- M: the design half
    models = []
    if pid in ("C01", "C02"):
        r = vlib.tlc_model("PfxTrie", P["trie_cfg"], pid + "-model", workers=16, timeout=P["tlc_timeout"], xmx="24g")
        models.append({"spec": "PfxTrie.tla", "cfg": P["trie_cfg"], **r.summary(),
                       "checked": "Refines PathInv HeapInv NoEmpty Distinct ValidateOK"})
    if pid in ("C02", "C09", "C10"):
        mm = "MCPfxTable" if kind == "pfx" else "MCSpkiTable"
        r2 = vlib.tlc_model(mm, mm + ".cfg", pid + "-model2", workers=16, coverage=True, timeout=P["tlc_timeout"])
        dead = [k for k, v in r2.coverage.items() if v[1] == 0 and k != "Init"]
        if len(r2.coverage) < 5:
            raise InfraError("action coverage of %s not reported" % mm)
        if dead:
            raise InfraError("vacuity: actions never taken in %s: %s" % (mm, dead))
        models.append({"spec": mm + ".tla", "cfg": mm + ".cfg", **r2.summary(),
                       "checked": "MirrorOK ReloadAtomic" + (" DiffIsNet TypeOK" if kind == "pfx" else " LookupsPartition"),
                       "action_coverage": {k: v[1] for k, v in r2.coverage.items()}})
    if pid == "C10":
        # the linear-hashing table underneath (tommy_hashlin): incremental grow / shrink and their reversals, step for step
        for cfg in P["hash_cfgs"]:
            r3 = vlib.tlc_model("MCHashLin", cfg, pid + "-model3", workers=16, coverage=True, timeout=P["tlc_timeout"], xmx="16g")
            dead = [k for k, v in r3.coverage.items() if v[1] == 0 and k.endswith("X")]
            if dead:
                raise InfraError("vacuity: actions never taken in MCHashLin/%s: %s" % (cfg, dead))
            models.append({"spec": "HashLin.tla", "cfg": cfg, **r3.summary(), "checked": "NoErr Findable ForeachExact Shape Load"})
    states = sum(m["distinct"] for m in models)
    transitions = sum(m["generated"] for m in models)
    cov["model"] = models

    # ---- A: TLC-generated histories replayed through the real table
    rnd = random.Random(seed)
    script = os.path.join(wd, "script.ndjson")
    n_ops = 0
    gens = []
    with open(script, "w") as f:
        if kind == "pfx":
            behs = vlib.tlc_behaviours("PfxTrie", "PfxTrie_sim.cfg", pid + "-simA", P["sim_num"], P["sim_depth"] + 1, seed)
            n_ops += trie_behaviours_to_script(behs, rnd, 3, f)
            gens.append({"spec": "PfxTrie.tla", "cfg": "PfxTrie_sim.cfg", "behaviours": len(behs)})
            behs2 = vlib.tlc_behaviours("MCPfxTable", "MCPfxTable_sim.cfg", pid + "-simA2", P["tab_sim_num"], 31, seed)
            n_ops += contract_behaviours_to_script(behs2, "pfx", f)
            gens.append({"spec": "MCPfxTable.tla", "cfg": "MCPfxTable_sim.cfg", "behaviours": len(behs2)})
        else:
            behs2 = vlib.tlc_behaviours("MCSpkiTable", "MCSpkiTable_sim.cfg", pid + "-simA2", P["tab_sim_num"] * 3, 31, seed)
            n_ops += contract_behaviours_to_script(behs2, "spki", f)
            gens.append({"spec": "MCSpkiTable.tla", "cfg": "MCSpkiTable_sim.cfg", "behaviours": len(behs2)})
    traceA, _ = harness(["script", script], "A", {"mode": "script", "script": script, "seed": seed}, [script])
    cov["binding_A"] = {"generators": gens, "operations": n_ops,
                        "events": sum(1 for _ in open(traceA)) if traceA else 0}

    # ---- H: the real tommy_hashlin against HashLin.tla, whole shape after every operation
    if pid == "C10":
        import hashgen
        exe_h = vlib.build_harness(pid, "asan", ["hashlin_harness.c"], objs, exe="h_hashlin")
        tch = TraceChecker(ctx, verdict, wd, "HashLinTrace", "HashLinTrace.cfg", "OK_C10", timeout=P["tlc_timeout"])
        hs = os.path.join(wd, "hash_script.txt")
        nh = hashgen.write_script(hs, seed, P["hash_seqs"], tier == "thorough")
        ht = os.path.join(wd, "traceH.ndjson")
        rc, out = vlib.sh([exe_h, hs, ht], env=vlib.SAN_ENV, timeout=600)
        meta = {"mode": "hash", "script": hs, "seed": seed}
        if rc != 0:
            mpath = os.path.join(wd, "meta.json")
            json.dump(meta, open(mpath, "w"))
            rp = vlib.save_replay(pid, "H-crash-seed%d" % seed, [mpath, hs])
            verdict.deviation("C10:hashlin-crash", "tommy_hashlin under the generated operations: exit %d: %s" % (rc, out[-800:]), rp)
        else:
            tch.validate(ht, "H", meta, [hs])
        cov["binding_H"] = {"operations": nh, "judge": "HashLinTrace.tla (bucket_bit, low_max, split, state, count, every bucket in list order, foreach count after every call)",
                            "events_validated": tch.events}
        tc.traces += tch.traces
        tc.events += tch.events

    # ---- B: seeded random driver on realistic data
    if kind == "pfx":
        args = [seed, P["episodes"], P["ops"], P["maxpool"]]
    else:
        args = [seed, P["k_episodes"], P["k_ops"], P["k_maxpool"]]
    traceB, outB = harness(["gen"] + [str(x) for x in args], "B", {"mode": "gen", "args": args, "seed": seed})
    evs = vlib.read_ndjson(traceB) if traceB else []
    kinds = {}
    for e in evs:
        kinds[e["e"]] = kinds.get(e["e"], 0) + 1
    cov["binding_B"] = {"events": len(evs), "by_kind": kinds, "episodes": args[1],
                        "ubsan_reports_diagnostic": outB.count("runtime error:")}
    allev = evs + (vlib.read_ndjson(traceA) if traceA else [])
    rel = [e for e in allev if e["e"] in RELEVANT[pid]]
    nontriv = [e for e in rel if not (e["e"] == "val" and e.get("res") == "notfound") and not (e["e"] in ("get", "ski") and not e.get("res"))]
    distinct = len({vlib.digest(e) for e in nontriv})

    extras = []
    if pid == "C01":
        # beyond the listed properties: the bit helpers the trie is built on, judged by IpBitsTrace.tla (never a violation)
        from tracecheck import extra_conformance
        exe_b = vlib.build_harness(pid, "asan", ["ipbits_harness.c"], objs, exe="h_ipbits")
        tb = os.path.join(wd, "traceBits.ndjson")
        rc_b, out_b = vlib.sh([exe_b, str(seed), "7" if tier == "quick" else "40", tb], env=vlib.SAN_ENV, timeout=300)
        if rc_b == 0:
            # the calls the trie makes - (0, len) and (lvl, 1) - and the helpers' documented contract in general, judged apart
            t_trie, t_gen = os.path.join(wd, "traceBits_trie.ndjson"), os.path.join(wd, "traceBits_general.ndjson")
            with open(t_trie, "w") as ft, open(t_gen, "w") as fg:
                last_trie = True
                for line in open(tb):
                    e = json.loads(line)
                    if e["e"] == "getbits":
                        last_trie = e["from"] == 0 or e["n"] == 1
                    elif e["e"] == "equal":
                        last_trie = True
                    (ft if last_trie else fg).write(line)
            extras.append(extra_conformance(ctx, wd, "IpBitsTrace", "IpBitsTrace.cfg", "OK_EXT", t_trie,
                                            "bit helpers as the trie calls them: lrtr_ip_addr_get_bits(0, len) and (lvl, 1), is_zero, equal (IpBits.tla)"))
            extras.append(extra_conformance(ctx, wd, "IpBitsTrace", "IpBitsTrace.cfg", "OK_EXT", t_gen,
                                            "lrtr_ip_addr_get_bits for every other (from, n): documented contract (IpBits.tla); a rejection here is the "
                                            "observation of DESIGN.md 12.1 (bits lost across a 32-bit boundary when from is not word-aligned), no listed property depends on it"))
        else:
            extras.append({"what": "bit helpers", "accepted": False, "note": "harness exit %d" % rc_b})
    rcode = verdict.finish()
    vlib.write_evidence(pid, tier, seed, "model_checking", {
        "extra_conformance": extras,
        "states": states, "transitions": transitions, "traces_validated_against_impl": tc.traces,
        "samples": (nontriv or rel)[:3],
        "evaluations": len(rel), "distinct_nontrivial": distinct,
        "rule": "trace events of kinds %s, each checked by monitor %s of %s.tla; non-trivial = distinct event whose answer is not the empty / NOT-FOUND one" % (list(RELEVANT[pid]), inv, tmod),
        "checker_cmd": "tlc (models: %s); tlc %s (INVARIANT %s, POSTCONDITION TraceAccepted)" % (", ".join(m["cfg"] for m in models), tmod, inv),
        "events_validated": tc.events,
        "known_findings_hit": [k for k, _ in verdict.known],
        "detail": cov,
    }, time.time() - t0, len(verdict.violations), [
        "TLC results are exhaustive only for the small constants stated in the cfg headers",
        "code-side runs are finite seeded samples; NDEBUG build flavour (as shipped) with ASan; UBSan reports are diagnostics here",
        "trusted: TLC, the harness's JSON logging of arguments/results, clang sanitizers",
    ])
    return rcode
