"""C01 C02 C09: prefix table.  Model: PfxTrie (algorithm) + PfxTable (contract, reload protocol).
Binding A: TLC-generated operation histories over a small universe, embedded into real IPv4/IPv6
address space and replayed through the real pfx_table with a full query sweep after every step.
Binding B: seeded random driver on realistic data.  Both produce ndjson traces validated by
PfxTableTrace.tla with the property's monitor as invariant."""
import json
import os
import random
import re
import time

import vlib
from vlib import InfraError

NAME = {"C01": "RFC 6811 verdicts and reasons", "C02": "set semantics / return codes / enumeration",
        "C09": "callback change log"}
ASN_MAP = {0: "0", 1: "65001", 2: "4200000000", 99: "7"}


def write_cfg(path, template, invariant, extra=""):
    s = open(os.path.join(vlib.SPEC, template)).read()
    s = re.sub(r"(?m)^INVARIANTS.*$", "INVARIANTS " + invariant, s)
    open(path, "w").write(s + extra)
    return path


def words(bits, maxb):
    v = 0
    for b in bits:
        v = (v << 1) | b
    v <<= (maxb - len(bits))
    return [(v >> (maxb - 16 * (i + 1))) & 0xffff for i in range(maxb // 16)]


def behaviours_to_script(behs, rnd, W, out_path):
    """Embed each TLC behaviour (ops over W-bit prefixes) into a real address family and add
    a full sweep of the W-bit query universe (x ASNs) + an enumeration after every step."""
    universe = [[]]
    for k in range(1, W + 1):
        universe += [[(i >> (k - 1 - j)) & 1 for j in range(k)] for i in range(2 ** k)]
    n_ops = 0
    with open(out_path, "w") as f:
        for bi, beh in enumerate(behs):
            fam = rnd.choice([4, 6])
            maxb = 32 if fam == 4 else 128
            base_len = rnd.choice([0, 0, maxb - W, rnd.randrange(0, maxb - W + 1), 16 - 1, 31 if fam == 6 else 13,
                                   63 if fam == 6 else 7])
            base = [rnd.randrange(2) for _ in range(base_len)]
            wide_max = rnd.random() < 0.3

            def rec(o):
                bits = base + o["bits"]
                m = base_len + o["m"]
                if wide_max and o["m"] == W:
                    m = maxb
                return {"f": fam, "w": words(bits, maxb), "l": len(bits), "m": m, "a": ASN_MAP[o["a"]], "s": o["s"]}

            f.write(json.dumps({"op": "reset"}) + "\n")
            f.write(json.dumps({"op": "init", "t": 1, "cbk": 1}) + "\n")
            for o in beh:
                if o["op"] in ("add", "rm"):
                    f.write(json.dumps({"op": o["op"], "t": 1, "r": rec(o)}) + "\n")
                else:
                    f.write(json.dumps({"op": "srcrm", "t": 1, "s": o["s"]}) + "\n")
                n_ops += 1
                for q in universe:
                    qb = base + q
                    host = [rnd.randrange(2) for _ in range(maxb - len(qb))] if rnd.random() < 0.3 else []
                    for a in rnd.sample([0, 1, 2, 99], 2):
                        f.write(json.dumps({"op": "val", "t": 1, "q": {"f": fam, "w": words(qb + host, maxb), "l": len(qb)},
                                            "a": ASN_MAP[a], "wr": 1 if rnd.random() < 0.7 else 0}) + "\n")
                f.write(json.dumps({"op": "enum", "t": 1}) + "\n")
            f.write(json.dumps({"op": "free", "t": 1}) + "\n")
    return n_ops


def run_harness(exe, args, what):
    rc, out = vlib.sh([exe] + args, env=vlib.SAN_ENV, timeout=600)
    return rc, out


TIERS = {
    "quick": dict(model_cfg="PfxTrie_quick.cfg", table_cfg="MCPfxTable.cfg", sim_num=3, sim_depth=24, episodes=40, ops=60,
                  maxpool=60, tlc_timeout=600),
    "thorough": dict(model_cfg="PfxTrie_w3.cfg", table_cfg="MCPfxTable.cfg", sim_num=30, sim_depth=24, episodes=400, ops=80,
                     maxpool=300, tlc_timeout=3000),
}


def run(ctx):
    pid, tier, seed = ctx.pid, ctx.tier, ctx.seed
    P = TIERS[tier]
    t0 = time.time()
    verdict = vlib.Verdict(pid)
    wd = vlib.mkdir(os.path.join(vlib.BUILD, pid), clean=not ctx.replay)
    objs = vlib.build_lib(pid, "asan")
    exe = vlib.build_harness(pid, "asan", ["pfx_harness.c"], objs)
    inv = "OK_" + pid
    cfg = write_cfg(os.path.join(wd, "trace.cfg"), "PfxTableTrace.cfg", inv)
    cov = {"model": {}, "binding_A": {}, "binding_B": {}}
    samples = []
    states = transitions = 0
    traces = 0

    def validate(trace, tag, meta):
        nonlocal traces
        acc, matched, total, r = vlib.validate_trace("PfxTableTrace", cfg, trace, pid + "-" + tag, timeout=P["tlc_timeout"])
        resets = sum(1 for line in open(trace) if '"e":"reset"' in line)
        if acc:
            traces += max(1, resets)
            return True
        # repeat once: a rejection is reported only if it is reproducible
        acc2, matched2, _, r2 = vlib.validate_trace("PfxTableTrace", cfg, trace, pid + "-" + tag + "-re", timeout=P["tlc_timeout"])
        if acc2:
            vlib.log("rejection not reproducible; ignoring (infra flake)")
            return True
        lines = open(trace).read().splitlines()
        bad_line = lines[matched2 - 1] if r2.violation and matched2 >= 1 and matched2 <= len(lines) else \
            (lines[matched2] if matched2 < len(lines) else "<end>")
        json.dump(meta, open(os.path.join(wd, "meta.json"), "w"))
        rp = vlib.save_replay(pid, "%s-seed%d" % (tag, seed), [trace, os.path.join(wd, "meta.json"), meta.get("script")])
        ev = json.loads(bad_line) if bad_line.startswith("{") else {}
        key = "%s:%s@%s" % (pid, r2.violation or "unexplained-event", ev.get("e", "?"))
        verdict.deviation(key, "monitor %s false / event not explained at trace line %d of %d: %s"
                          % (inv, matched2, total, bad_line[:400]), rp)
        return False

    if ctx.replay:
        meta = json.load(open(os.path.join(ctx.replay, "meta.json")))
        trace = os.path.join(wd, "replay.ndjson")
        if meta["mode"] == "gen":
            rc, out = run_harness(exe, ["gen"] + [str(x) for x in meta["args"]] + [trace], "replay")
        else:
            rc, out = run_harness(exe, ["script", os.path.join(ctx.replay, os.path.basename(meta["script"])), trace], "replay")
        if rc != 0:
            verdict.deviation("%s:harness-crash" % pid, "harness exit %d: %s" % (rc, out[-800:]), ctx.replay)
        else:
            validate(trace, "replay", meta)
        return verdict.finish()

    # ---- M: the design half
    if pid in ("C01", "C02"):
        r = vlib.tlc_model("PfxTrie", P["model_cfg"], pid + "-model", workers=16, timeout=P["tlc_timeout"], xmx="24g")
        cov["model"] = {"spec": "PfxTrie.tla", "cfg": P["model_cfg"], **r.summary(),
                        "invariants": "Refines PathInv HeapInv NoEmpty Distinct ValidateOK"}
    else:
        r = vlib.tlc_model("MCPfxTable", P["table_cfg"], pid + "-model", workers=16, coverage=True, timeout=P["tlc_timeout"])
        cov["model"] = {"spec": "PfxTable.tla", "cfg": P["table_cfg"], **r.summary(),
                        "invariants": "MirrorOK TypeOK DiffIsNet ReloadAtomic",
                        "action_coverage": {k: v[1] for k, v in r.coverage.items()}}
        dead = [k for k, v in r.coverage.items() if v[1] == 0]
        if dead:
            raise InfraError("vacuity: actions never taken in %s: %s" % (P["table_cfg"], dead))
    states, transitions = r.distinct, r.generated

    # ---- A: TLC-generated histories replayed through the real table
    rs = vlib.run_tlc("PfxTrie", "PfxTrie_sim.cfg", pid + "-sim", workers=4, simulate=P["sim_num"], depth=P["sim_depth"] + 1,
                      seed=seed, timeout=P["tlc_timeout"])
    if rs.error or rs.violation:
        raise InfraError("behaviour generation failed: %s %s" % (rs.error, rs.violation))
    behs = [json.loads(json.loads('"' + m + '"')) for m in re.findall(r'<<"BEH", "((?:[^"\\]|\\.)*)">>', rs.out)]
    if not behs:
        raise InfraError("TLC produced no behaviours")
    rnd = random.Random(seed)
    script = os.path.join(wd, "script.ndjson")
    n_ops = behaviours_to_script(behs, rnd, 3, script)
    traceA = os.path.join(wd, "traceA.ndjson")
    rc, out = run_harness(exe, ["script", script, traceA], "A")
    if rc != 0:
        rp = vlib.save_replay(pid, "A-crash-seed%d" % seed, [script])
        verdict.deviation("%s:harness-crash" % pid, "replaying TLC behaviours: exit %d: %s" % (rc, out[-800:]), rp)
    else:
        validate(traceA, "A", {"mode": "script", "script": script, "seed": seed})
    nA = sum(1 for _ in open(traceA)) if os.path.exists(traceA) else 0
    cov["binding_A"] = {"behaviours": len(behs), "operations": n_ops, "events": nA,
                        "generator": "tlc -simulate PfxTrie_sim.cfg (W=3, 2 sources, AS {0,1,2}, every max_len)"}

    # ---- B: seeded random driver on realistic data
    traceB = os.path.join(wd, "traceB.ndjson")
    args = [seed, P["episodes"], P["ops"], P["maxpool"]]
    rc, out = run_harness(exe, ["gen"] + [str(x) for x in args] + [traceB], "B")
    ub = out.count("runtime error:")
    if rc != 0:
        json.dump({"mode": "gen", "args": args, "seed": seed}, open(os.path.join(wd, "meta.json"), "w"))
        rp = vlib.save_replay(pid, "B-crash-seed%d" % seed, [os.path.join(wd, "meta.json")])
        verdict.deviation("%s:harness-crash" % pid, "random driver: exit %d: %s" % (rc, out[-800:]), rp)
    else:
        validate(traceB, "B", {"mode": "gen", "args": args, "seed": seed})
    evs = vlib.read_ndjson(traceB) if os.path.exists(traceB) else []
    kinds = {}
    for e in evs:
        kinds[e["e"]] = kinds.get(e["e"], 0) + 1
    cov["binding_B"] = {"events": len(evs), "by_kind": kinds, "episodes": P["episodes"], "ubsan_reports_diagnostic": ub}
    relevant = {"C01": ("val",), "C02": ("add", "rm", "srcrm", "enum", "copyx"), "C09": ("add", "rm", "srcrm", "free", "diff", "copyx")}[pid]
    allev = evs + (vlib.read_ndjson(traceA) if os.path.exists(traceA) else [])
    rel = [e for e in allev if e["e"] in relevant]
    distinct = len({vlib.digest(e) for e in rel if (e["e"] != "val" or e.get("res") != "notfound")})
    samples = [e for e in rel if e["e"] != "val" or e.get("res") != "notfound"][:3]

    rcode = verdict.finish()
    vlib.write_evidence(pid, tier, seed, "model_checking", {
        "states": states, "transitions": transitions, "traces_validated_against_impl": traces,
        "samples": samples or rel[:3],
        "evaluations": len(rel), "distinct_nontrivial": distinct,
        "rule": "events of kinds %s checked by monitor %s of PfxTableTrace.tla; non-trivial = distinct event with a non-NOTFOUND verdict / a state-relevant result" % (list(relevant), inv),
        "checker_cmd": "tlc PfxTrie %s; tlc PfxTableTrace (INVARIANT %s, POSTCONDITION TraceAccepted)" % (P["model_cfg"], inv),
        "detail": cov,
    }, time.time() - t0, len(verdict.violations), [
        "TLC exhaustive only for the stated small constants (see cfg headers)",
        "code-side runs are finite seeded samples; NDEBUG build flavour (as shipped) with ASan; UBSan reports are diagnostics here",
        "trusted: TLC, the harness's JSON logging of arguments/results, clang sanitizers",
    ])
    return rcode
