"""Generator of cache scripts for harness/fsm_harness.c (binding B of the protocol properties):
seeded conversations in which a simulated cache answers correctly, or misbehaves in one of the
ways the properties quantify over, followed (optionally) by a tail of correct answers.

The generator keeps the *cache's* state only (session, serial, data set history); it never
predicts the client.  Each exchange directive offers alternatives keyed by what the client may
ask (Reset Query / Serial Query with a known session+serial / anything else)."""
import json
import random

U32 = 4294967295


def rec4(rnd):
    ln = rnd.choice([0, 8, 16, 24, 32, rnd.randrange(33)])
    addr = rnd.getrandbits(32) & ((0xffffffff << (32 - ln)) & 0xffffffff) if ln else 0
    mx = rnd.choice([ln, min(32, ln + 8), 32])
    return {"k": "4", "pfx": "%08x" % addr, "len_": ln, "max": mx, "asn": str(rnd.choice([0, 1, 65000, U32, rnd.getrandbits(32)]))}


def rec6(rnd):
    ln = rnd.choice([0, 32, 48, 64, 128, rnd.randrange(129)])
    addr = rnd.getrandbits(128)
    addr = (addr >> (128 - ln)) << (128 - ln) if ln else 0
    mx = rnd.choice([ln, min(128, ln + 16), 128])
    return {"k": "6", "pfx": "%032x" % addr, "len_": ln, "max": mx, "asn": str(rnd.choice([1, 65001, U32, rnd.getrandbits(32)]))}


def reck(rnd):
    return {"k": "k", "asn": str(rnd.choice([1, 65002, rnd.getrandbits(32)])), "ski": rnd.randrange(12), "spki": rnd.randrange(12)}


def rkey(r):
    return json.dumps(r, sort_keys=True)


def frame_of(r, flags, v):
    if r["k"] == "4":
        return {"t": "ipv4", "v": v, "flags": flags, "len_": r["len_"], "max": r["max"], "pfx": r["pfx"], "asn": r["asn"]}
    if r["k"] == "6":
        return {"t": "ipv6", "v": v, "flags": flags, "len_": r["len_"], "max": r["max"], "pfx": r["pfx"], "asn": r["asn"]}
    return {"t": "router_key", "v": v, "flags": flags, "asn": r["asn"], "ski": r["ski"], "spki": r["spki"]}


IV_VALUES = {"refresh": [0, 1, 2, 3600, 86399, 86400, 86401, 2147483648, U32],
             "retry": [0, 1, 2, 600, 7199, 7200, 7201, 2147483648, U32],
             "expire": [0, 599, 600, 601, 7200, 172799, 172800, 172801, 2147483648, U32]}


class Cache:
    def __init__(self, rnd, cv):
        self.rnd = rnd
        self.cv = cv                       # protocol version the cache speaks
        self.sess = rnd.randrange(65536)
        self.serial = rnd.choice([0, 1, 5, U32 - 1, U32, 2147483647, 2147483648, rnd.getrandbits(32)])
        self.pool = [rec4(rnd) for _ in range(rnd.randrange(2, 8))] + [rec6(rnd) for _ in range(rnd.randrange(1, 6))] \
            + [reck(rnd) for _ in range(rnd.randrange(0, 5))]
        self.data = {}
        for r in rnd.sample(self.pool, rnd.randrange(1, len(self.pool) + 1)):
            self.data[rkey(r)] = r
        self.hist = {self.serial: dict(self.data)}
        self.iv = {"refresh": "3600", "retry": "600", "expire": "7200"}

    def mutate(self):
        rnd = self.rnd
        for _ in range(rnd.randrange(1, 4)):
            r = rnd.choice(self.pool)
            if rkey(r) in self.data:
                del self.data[rkey(r)]
            else:
                self.data[rkey(r)] = r
        self.serial = (self.serial + 1) & U32
        self.hist[self.serial] = dict(self.data)
        if len(self.hist) > 5:
            del self.hist[next(iter(self.hist))]

    def restart(self):
        self.sess = (self.sess + self.rnd.randrange(1, 7)) & 0xffff
        self.hist = {self.serial: dict(self.data)}

    @property
    def v(self):
        return "q%d" % self.cv           # answer in the version of the query, at most cv

    def eod(self, sess=None, **over):
        f = {"t": "eod", "v": self.v, "sess": self.sess if sess is None else sess, "sn": str(self.serial)}
        f.update(self.iv)                # used only when the effective version is >= 1
        f.update(over)
        return f

    def full(self):
        v = self.v
        return [{"f": {"t": "cache_response", "v": v, "sess": self.sess}}] + \
               [{"f": frame_of(r, 1, v)} for r in self.data.values()] + [{"f": self.eod()}]

    def delta(self, old):
        v = self.v
        items = [{"f": {"t": "cache_response", "v": v, "sess": self.sess}}]
        for k, r in old.items():
            if k not in self.data:
                items.append({"f": frame_of(r, 0, v)})
        for k, r in self.data.items():
            if k not in old:
                items.append({"f": frame_of(r, 1, v)})
        self.rnd.shuffle(items[1:])
        return items + [{"f": self.eod()}]

    def alts(self, corrupt=None):
        """alternatives: reset -> full set; serial with a known (session, serial) -> delta; else Cache Reset.
        corrupt(items, base) may damage a response (base = what the client is assumed to hold)."""
        out = []
        full = self.full()
        if corrupt:
            full = corrupt(full, {})
        out.append({"q": "reset", "items": full})
        for sn, old in self.hist.items():
            d = self.delta(old)
            if corrupt:
                d = corrupt(d, old)
            out.append({"q": "serial", "sess": self.sess, "sn": str(sn), "items": d})
        out.append({"q": "any", "items": [{"f": {"t": "cache_reset", "v": self.v}}]})
        return out


def gen_execution(rnd, lines, want_tail=True, n_ex=None, faults=True):
    cv = rnd.choice([1, 1, 1, 0])
    c = Cache(rnd, cv)
    mode = rnd.choice(["ignore_any", "accept_any", "min_max", "ignore_on_failure"])
    cfg = {"refresh": str(rnd.choice([1, 30, 3600, 86400])), "expire": str(rnd.choice([600, 7200, 172800])),
           "retry": str(rnd.choice([1, 60, 600, 7200])), "mode": mode,
           "others": [rec4(rnd), rec6(rnd), reck(rnd)][:rnd.randrange(1, 4)], "t0": rnd.randrange(100000)}
    if rnd.random() < 0.08:          # configuration outside the RFC 8210 ranges must be rejected
        k = rnd.choice(["refresh", "expire", "retry"])
        cfg[k] = str(rnd.choice([v for v in IV_VALUES[k] if True]))
    lines.append({"new": cfg})
    n_ex = n_ex or rnd.randrange(3, 12)
    for _ in range(rnd.randrange(0, 3)):
        lines.append({"open": "fail"})
    lines.append({"open": "ok"})

    def pos(items):                      # a position inside the payload (after Cache Response)
        return rnd.randrange(1, len(items)) if len(items) > 1 else 1

    for i in range(n_ex):
        ex = {}
        kind = rnd.choice(["good"] * 5 + ["dup", "unknown", "flags", "crsess", "eodsess", "unexpected", "badver", "badlen",
                                           "fault", "errpdu", "creset", "notify", "intr", "sendfail", "openfail", "stopstart",
                                           "park", "expire", "ivs", "f1seq", "restart", "notifywait", "firstnotcr", "hangup", "parkcb", "lateintr", "straywait", "badverthenv0", "reloadfail", "reloadfail", "bulk", "slowsend", "slowrecv"]) if faults else "good"
        if kind == "bulk":                     # one response with more records than the client's PDU stores hold at first (100 per family)
            fam = rnd.choice(["k", "k", "4", "6"])
            for j in range(rnd.choice([99, 100, 101, 102, 205, 260])):
                r = {"k": "k", "asn": str(70000 + j), "ski": j % 12, "spki": (j // 12) % 12 + rnd.randrange(2) * 0} if fam == "k" else \
                    {"k": "4", "pfx": "%08x" % (0x64000000 + (j << 8)), "len_": 24, "max": 24, "asn": str(70000 + j)} if fam == "4" else \
                    {"k": "6", "pfx": "%032x" % ((0x20010db8 << 96) + (j << 64)), "len_": 64, "max": 64, "asn": str(70000 + j)}
                c.pool.append(r)
                c.data[rkey(r)] = r
            c.serial = (c.serial + 1) & U32
            c.hist[c.serial] = dict(c.data)
        elif kind != "reloadfail" and rnd.random() < 0.6:
            c.mutate()
        if rnd.random() < 0.3:
            ex["chunk"] = rnd.choice([1, 2, 3, 7, -1])
        if rnd.random() < 0.2:
            ex["sendchunk"] = rnd.choice([1, 3, 5])
        v = c.v

        def corrupt_none(items, base):
            return items
        corrupt = corrupt_none
        if kind == "dup":
            def corrupt(items, base):
                have = [r for k, r in c.data.items() if k in base] or list(c.data.values())
                if not have:
                    return items
                p = pos(items)
                return items[:p] + [{"f": frame_of(rnd.choice(have), 1, v)}] + items[p:] if base else \
                    items[:p] + [dict(items[rnd.randrange(1, len(items) - 1)])] + items[p:] if len(items) > 2 else items
        elif kind == "unknown":
            def corrupt(items, base):
                cand = [r for r in c.pool if rkey(r) not in base and rkey(r) not in c.data]
                if not cand:
                    return items
                p = pos(items)
                return items[:p] + [{"f": frame_of(rnd.choice(cand), 0, v)}] + items[p:]
        elif kind == "flags":
            def corrupt(items, base):
                p = pos(items)
                return items[:p] + [{"f": frame_of(rnd.choice(c.pool), rnd.choice([2, 3, 128, 255]), v)}] + items[p:]
        elif kind == "reloadfail":             # Cache Reset, then a full set (mostly what the client already holds) with one offending PDU
            def corrupt(items, base):
                fam = rnd.choice(["4", "6", "k", "k"])
                present = [r for r in c.data.values() if r["k"] == fam]
                absent = [r for r in c.pool if r["k"] == fam and rkey(r) not in c.data]
                how = rnd.choice(["dup", "unknown", "flags"])
                if how == "dup" and present:
                    bad = {"f": frame_of(rnd.choice(present), 1, v)}
                elif how == "unknown" and absent:
                    bad = {"f": frame_of(rnd.choice(absent), 0, v)}
                elif present or absent:
                    bad = {"f": frame_of(rnd.choice(present or absent), rnd.choice([2, 3, 255]), v)}
                else:
                    return items
                p = pos(items)
                return items[:p] + [bad] + items[p:]
        elif kind == "f1seq":                  # announce X, withdraw X, announce Y, then an offending PDU
            def corrupt(items, base):
                fresh = [r for r in c.pool if rkey(r) not in base and rkey(r) not in c.data]
                if len(fresh) < 2:
                    return items
                x, y = fresh[0], fresh[1]
                bad = {"f": frame_of(y, 1, v)} if rnd.random() < 0.5 else {"f": frame_of(x, 0, v)}
                seq = [{"f": frame_of(x, 1, v)}, {"f": frame_of(x, 0, v)}, {"f": frame_of(y, 1, v)}, bad]
                return items[:1] + seq + items[1:]
        elif kind == "crsess":
            def corrupt(items, base):
                items = list(items)
                items[0] = {"f": {"t": "cache_response", "v": v, "sess": (c.sess + rnd.randrange(1, 9)) & 0xffff}}
                return items
        elif kind == "eodsess":
            def corrupt(items, base):
                return items[:-1] + [{"f": c.eod(sess=(c.sess + 1 + rnd.randrange(3)) & 0xffff)}]
        elif kind == "unexpected":
            def corrupt(items, base):
                p = rnd.randrange(0, len(items))
                junk = rnd.choice([{"t": "cache_reset", "v": v}, {"t": "serial_query", "v": v, "sess": c.sess, "sn": "1"},
                                   {"t": "reset_query", "v": v}, {"t": "cache_response", "v": v, "sess": c.sess}])
                return items[:p] + [{"f": junk}] + items[p:]
        elif kind == "firstnotcr":
            def corrupt(items, base):
                return items[1:] if len(items) > 1 else items
        elif kind == "badver":
            def corrupt(items, base):
                items = [dict(x) for x in items]
                p = rnd.randrange(0, len(items))
                f = dict(items[p]["f"])
                f["v"] = rnd.choice([2, 7, 255, 255 - 0] + ([0] if c.cv == 1 and p > 0 else []) + ([1] if c.cv == 0 else []))
                items[p] = {"f": f}
                return items
        elif kind == "badverthenv0":          # a refused first PDU (wrong version) followed by an answer in version 0
            def corrupt(items, base):
                if c.cv == 0:
                    return items
                first = {"f": {"t": rnd.choice(["cache_response", "cache_reset"]), "v": rnd.choice([2, 3, 255]), "sess": c.sess}}
                rest = []
                for it in items:
                    f = dict(it["f"])
                    f["v"] = 0
                    rest.append({"f": f})
                return [first] + rest
        elif kind == "badlen":
            def corrupt(items, base):
                items = [dict(x) for x in items]
                p = rnd.randrange(0, len(items))
                f = dict(items[p]["f"])
                choice = rnd.choice(["short", "big", "off", "type"])
                if choice == "short":
                    f["len"] = rnd.choice([0, 1, 7])
                elif choice == "big":
                    f["len"] = rnd.choice([3249, 65536, 2147483648, U32])
                elif choice == "off":
                    nat = {"cache_response": 8, "ipv4": 20, "ipv6": 32, "router_key": 123, "eod": 24 if c.cv else 12}.get(f["t"], 8)
                    f["len"] = max(8, nat + rnd.choice([-4, -1, 1, 4, 12]))
                else:
                    f = {"t": "unknown", "tn": rnd.choice([5, 11, 12, 200, 255]), "v": v}
                items[p] = {"f": f}
                return items
        elif kind == "fault":
            def corrupt(items, base):
                p = rnd.randrange(0, len(items) + 1)
                k = rnd.choice(["err", "timeout", "closed"])
                if p < len(items) and rnd.random() < 0.5:
                    items = [dict(x) for x in items]
                    items[p]["cut"] = rnd.randrange(1, 12)
                    items[p]["cutkind"] = k
                    return items[:p + 1]
                return items[:p] + [{"fault": k}]
        elif kind == "hangup":               # the cache closes the connection without answering
            def corrupt(items, base):
                return [{"fault": "closed"}]
        elif kind == "intr":
            def corrupt(items, base):
                p = rnd.randrange(0, len(items) + 1)
                return items[:p] + [{"fault": "intr"}] + items[p:]
        elif kind == "errpdu":
            def corrupt(items, base):
                code = rnd.choice([0, 1, 2, 2, 3, 4, 5, 6, 7, 8, 99])
                ev = v
                if code == 4 and c.cv == 1 and rnd.random() < 0.7:
                    ev = 0
                e = {"t": "error", "v": ev, "code": code, "enc": "0102000000000008" if rnd.random() < 0.5 else "", "txt": rnd.choice(["", "no", "x" * 40])}
                p = rnd.randrange(0, len(items))
                return items[:p] + [{"f": e}]
        elif kind == "notify":
            def corrupt(items, base):
                p = rnd.randrange(0, len(items) + 1)
                return items[:p] + [{"f": {"t": "serial_notify", "v": v, "sess": c.sess, "sn": str(c.serial)}}] + items[p:]
        elif kind == "ivs":
            over = {k: str(rnd.choice(IV_VALUES[k])) for k in ("refresh", "retry", "expire")}

            def corrupt(items, base):
                return items[:-1] + [{"f": c.eod(**over)}]
        alts = c.alts(corrupt)
        if kind == "creset":
            alts = [{"q": "any", "items": [{"f": {"t": "cache_reset", "v": v}}]}]
        if kind == "restart":
            c.restart()
            alts = c.alts()
        if kind == "badverthenv0":
            ex["keepopen"] = 1
        if kind in ("badver", "unexpected", "firstnotcr") and rnd.random() < 0.5:
            ex["keepopen"] = 1           # a cache that keeps talking after the client's Error Report
        if kind == "lateintr":           # the wait for the next refresh is re-entered after its deadline has passed
            for a in alts:
                a["items"] = a["items"] + [{"tick": rnd.choice([100, 5000, 100000])}, {"fault": "intr"}]
        if kind == "straywait":          # a PDU that is ignored while established, then the wait is re-entered
            for a in alts:
                stray = rnd.choice([{"t": "cache_reset", "v": v}, {"t": "error", "v": v, "code": 2, "enc": "", "txt": ""},
                                    {"t": "cache_response", "v": v, "sess": c.sess}])
                a["items"] = a["items"] + [{"tick": rnd.choice([10, 5000, 100000])}, {"f": stray}]
        if kind == "notifywait":
            for a in alts:
                a["items"] = a["items"] + [{"tick": rnd.randrange(1, 50)}, {"f": {"t": "serial_notify", "v": v, "sess": c.sess, "sn": str(c.serial)}}]
        if kind == "sendfail":
            ex["sendrc"] = rnd.choice(["err", "wouldblock"])
        if kind == "slowsend":           # a congested link: the query goes out in pieces and time passes after the first one
            ex["sendchunk"] = rnd.choice([1, 3, 5, 6, 7])
            ex["sendtick"] = rnd.choice([1, 30, 59, 60, 61, 100, 4000])
        if kind == "slowrecv":           # frames trickle in: short reads with time passing between them (also while established)
            for a in alts:
                for it in a["items"]:
                    if "f" in it and rnd.random() < 0.5:
                        it["ctick"] = rnd.choice([1, 5, 20, 29, 30, 31, 61, 500, 3000])
                a["items"] = a["items"] + [{"f": {"t": "serial_notify", "v": v, "sess": c.sess, "sn": str(c.serial)}, "ctick": rnd.choice([100, 1000, 3000, 40000])}]
            ex["chunk"] = rnd.choice([1, 2, 3, 5])
        if kind == "openfail":
            for _ in range(rnd.randrange(1, 4)):
                lines.append({"open": "fail"})
        if kind == "expire":             # a long outage: ticks while waiting + failing reconnects
            for a in alts:
                a["items"] = a["items"] + [{"tick": rnd.choice([500, 7000, 200000])}, {"fault": rnd.choice(["err", "closed"])}]
            for _ in range(rnd.randrange(0, 4)):
                lines.append({"open": "fail"})
        if kind == "park":
            for a in alts:
                p = rnd.randrange(0, len(a["items"]) + 1)
                a["items"] = a["items"][:p] + [{"park": "stopstart"}]
        if kind == "parkcb":             # rtr_stop() arrives while the response is being applied
            ex["parkcb"] = rnd.randrange(1, 4)
        if kind == "stopstart":
            lines.append({"ex": {"stopstart": True}})
        if kind == "reloadfail":
            lines.append({"ex": {"alts": [{"q": "any", "items": [{"f": {"t": "cache_reset", "v": v}}]}]}})
        ex["alts"] = alts
        lines.append({"ex": ex})
        lines.append({"open": "ok"})
    if want_tail:
        tail = {"alts": c.alts(), "mark": {"cdata": list(c.data.values())}}
        lines.append({"ex": tail})
        for _ in range(7):
            lines.append({"ex": {"alts": c.alts()}})
    lines.append({"run": True})


def write_script(path, seed, executions, faults=True, tail_prob=0.7):
    rnd = random.Random(seed)
    lines = []
    for _ in range(executions):
        gen_execution(rnd, lines, want_tail=rnd.random() < tail_prob, faults=faults)
    with open(path, "w") as f:
        for ln in lines:
            f.write(json.dumps(ln) + "\n")
    return len(lines)


# ---------------------------------------------------------------------------------------------
# hostile byte streams (property C04): well-formed PDUs with hostile field values, every length-field
# pathology per type, truncation at every byte, Error Reports with inconsistent inner lengths, noise

NATURAL = {"serial_notify": 12, "cache_response": 8, "ipv4": 20, "ipv6": 32, "eod": 24, "cache_reset": 8, "router_key": 123,
           "serial_query": 12, "reset_query": 8}


def hostile_frame(rnd, c):
    v = c.v
    k = rnd.choice(["fields4", "fields6", "key", "eodiv", "len", "len", "errpdu", "errpdu", "errmax", "type", "raw"])
    if k == "errmax":         # an Error Report as long as a PDU may be whose inner lengths leave less room than the fields behind them need
        ln = rnd.choice([3244, 3245, 3246, 3247, 3248, 3248, 3248])
        return {"t": "error", "v": rnd.choice([v, v, 0, 1]), "code": rnd.choice([0, 2, 3, 255]), "enc": "", "txt": "", "len": ln,
                "enclen": ln - rnd.choice([11, 12, 12, 13, 13, 14, 14, 15, 15, 16, 17])}
    if k == "fields4":
        return {"t": "ipv4", "v": v, "flags": rnd.choice([0, 1, 1, 2, 255]), "len_": rnd.choice([0, 1, 24, 32, 33, 128, 200, 255]),
                "max": rnd.choice([0, 1, 24, 32, 33, 255]), "zero": rnd.choice([0, 1, 255]), "pfx": "%08x" % rnd.getrandbits(32),
                "asn": str(rnd.choice([0, 1, U32])), "res": rnd.choice([0, 0, 65535])}
    if k == "fields6":
        return {"t": "ipv6", "v": v, "flags": rnd.choice([0, 1, 1, 3]), "len_": rnd.choice([0, 1, 64, 127, 128, 129, 255]),
                "max": rnd.choice([0, 64, 128, 129, 255]), "zero": rnd.choice([0, 7]), "pfx": "%032x" % rnd.getrandbits(128),
                "asn": str(rnd.choice([0, 1, U32]))}
    if k == "key":
        return {"t": "router_key", "v": v, "flags": rnd.choice([0, 1, 2, 255]), "zero": rnd.choice([0, 9]), "asn": str(rnd.getrandbits(32)),
                "ski": rnd.randrange(30), "spki": rnd.randrange(30)}
    if k == "eodiv":
        return c.eod(refresh=str(rnd.choice([0, 1, U32, 2147483648])), retry=str(rnd.choice([0, U32, 7201])), expire=str(rnd.choice([0, 599, U32])))
    if k == "len":
        t = rnd.choice(list(NATURAL))
        nat = NATURAL[t]
        f = {"t": t, "v": v, "sess": c.sess, "sn": "1", "flags": 1, "len_": 8, "max": 8, "pfx": "0a000000", "asn": "1", "ski": 1, "spki": 1}
        f["len"] = rnd.choice([0, 1, 7, 8, 9, nat - 1, nat + 1, nat + 4, 3248, 3249, 4000, 65535, 2147483648, U32])
        return f
    if k == "errpdu":
        f = {"t": "error", "v": rnd.choice([v, 0, 1, 2]), "code": rnd.choice([0, 1, 2, 3, 4, 5, 6, 7, 8, 255, 65535]),
             "enc": rnd.choice(["", "0102000000000008", "00" * 40]), "txt": rnd.choice(["", "x", "y" * 30])}
        w = rnd.random()
        if w < 0.12:          # as long as a PDU may be, the inner lengths leaving less room than the fields behind them need
            f["len"] = rnd.choice([3240, 3244, 3245, 3246, 3247, 3248])
            f["enclen"] = f["len"] - rnd.choice([8, 11, 12, 13, 14, 15, 16, 17, 20])
            f["enc"] = ""
            f["txt"] = ""
        elif w < 0.3:
            f["enclen"] = rnd.choice([U32, 4294967280, 2147483648, 65536, 3233, 1, 7])
        elif w < 0.5:
            f["txtlen"] = rnd.choice([U32, 2147483648, 1, 255, 3000])
        elif w < 0.7:
            f["len"] = rnd.choice([8, 12, 15, 16, 17, 20, 3248, 3249])
        return f
    if k == "type":
        return {"t": "unknown", "tn": rnd.choice([5, 11, 12, 127, 128, 254, 255]), "v": v, "len": rnd.choice([8, 8, 12, 20, 100])}
    n = rnd.choice([8, 8, 12, 20, 32, 64])
    raw = bytearray(rnd.getrandbits(8) for _ in range(n))
    if rnd.random() < 0.7:       # keep the stream framed: the length field announces exactly these bytes
        raw[4:8] = n.to_bytes(4, "big")
    return {"t": "raw", "hex": raw.hex()}


def gen_hostile_execution(rnd, lines):
    c = Cache(rnd, rnd.choice([1, 1, 0]))
    cfg = {"refresh": "30", "expire": "600", "retry": "1", "mode": rnd.choice(["ignore_any", "accept_any", "min_max", "ignore_on_failure"]),
           "others": [rec4(rnd), reck(rnd)], "t0": rnd.randrange(1000)}
    lines.append({"new": cfg})
    for i in range(rnd.randrange(3, 9)):
        if rnd.random() < 0.3:
            c.mutate()

        def corrupt(items, base):
            items = [dict(x) for x in items]
            w = rnd.random()
            if w < 0.55:                       # hostile frames spliced into an otherwise correct answer
                for _ in range(rnd.randrange(1, 4)):
                    p = rnd.randrange(0, len(items) + 1)
                    items.insert(p, {"f": hostile_frame(rnd, c)})
            elif w < 0.8:                      # truncation: the stream ends inside a frame
                p = rnd.randrange(0, len(items))
                items[p]["cut"] = rnd.randrange(0, 40)
                items[p]["cutkind"] = rnd.choice(["err", "closed", "timeout"])
                items = items[:p + 1]
            else:                              # hostile frames while the client is established (after End of Data)
                items = items + [{"tick": rnd.randrange(1, 20)}] + [{"f": hostile_frame(rnd, c)} for _ in range(rnd.randrange(1, 4))]
            return items
        ex = {"alts": c.alts(corrupt)}
        if rnd.random() < 0.5:
            ex["keepopen"] = 1
        lines.append({"ex": ex})
    for _ in range(3):
        lines.append({"ex": {"alts": c.alts()}})
    lines.append({"run": True})


def write_hostile_script(path, seed, executions):
    rnd = random.Random(seed * 7919 + 13)
    lines = []
    for _ in range(executions):
        gen_hostile_execution(rnd, lines)
    with open(path, "w") as f:
        for ln in lines:
            f.write(json.dumps(ln) + "\n")
    return len(lines)


def write_reload_script(path, seed, executions):
    """Conversations for the allocation-failure enumeration: several records of another source in every
    family, full loads, incremental updates, atomic reloads (Cache Reset, session change) and responses that fail after
    part of their payload has been applied (so that roll-backs run under allocation failure too): one failing incremental
    update per family of the offending PDU, each with withdrawals and announcements of both prefix families before it."""
    rnd = random.Random(seed * 31 + 5)
    lines = []

    def force_delta(c):
        for fam in ("4", "6", "k"):
            pres = [r for r in c.data.values() if r["k"] == fam]
            absn = [r for r in c.pool if r["k"] == fam and rkey(r) not in c.data]
            if pres:
                del c.data[rkey(rnd.choice(pres))]
            if absn:
                r = rnd.choice(absn)
                c.data[rkey(r)] = r
        c.serial = (c.serial + 1) & U32
        c.hist[c.serial] = dict(c.data)

    def failing(c, fam):
        def corrupt(items, base):
            absent = [r for r in c.pool if r["k"] == fam and rkey(r) not in base and rkey(r) not in c.data]
            present = [r for r in c.data.values() if r["k"] == fam]
            if absent and (not present or rnd.random() < 0.6):
                bad = {"f": frame_of(rnd.choice(absent), 0, c.v)}        # withdrawal of an unknown record
            elif present:
                bad = {"f": frame_of(rnd.choice(present), 1, c.v)}       # announced twice / already held
            else:
                return items
            return items[:-1] + [bad] + items[-1:]
        return c.alts(corrupt)
    for _ in range(executions):
        c = Cache(rnd, 1)
        for mk in (rec4, rec4, rec6, rec6, reck, reck, reck):             # every family has spare records
            c.pool.append(mk(rnd))
        cfg = {"refresh": "30", "expire": "7200", "retry": "1", "mode": "min_max",
               "others": [rec4(rnd), rec4(rnd), rec4(rnd), rec6(rnd), rec6(rnd), reck(rnd), reck(rnd)], "t0": 0}
        lines.append({"new": cfg})
        lines.append({"ex": {"alts": c.alts()}})
        c.mutate()
        lines.append({"ex": {"alts": c.alts()}})
        for fam in rnd.sample(["4", "6", "k"], 3):
            force_delta(c)
            lines.append({"ex": {"alts": failing(c, fam)}})          # incremental update that fails at its last PDU
            lines.append({"ex": {"alts": c.alts()}})
        lines.append({"ex": {"alts": [{"q": "any", "items": [{"f": {"t": "cache_reset", "v": c.v}}]}]}})
        c.mutate()
        if rnd.random() < 0.5:
            lines.append({"ex": {"alts": failing(c, rnd.choice(["4", "6", "k"]))}})      # atomic reload that fails
        for _ in range(3):
            lines.append({"ex": {"alts": c.alts()}})
        c.restart()
        c.mutate()
        for _ in range(4):
            lines.append({"ex": {"alts": c.alts()}})
        lines.append({"run": True})
    with open(path, "w") as f:
        for ln in lines:
            f.write(json.dumps(ln) + "\n")
    return len(lines)


def write_stopstart_script(path, seed, executions):
    """Conversations for the socket-layer assumptions of the group manager: correct caches, and the user stopping and
    starting the socket between and inside exchanges (as rtr_mgr does on every fail-over and fail-back)."""
    rnd = random.Random(seed * 131 + 17)
    lines = []
    for _ in range(executions):
        c = Cache(rnd, rnd.choice([1, 1, 0]))
        cfg = {"refresh": "30", "expire": "7200", "retry": "5", "mode": "min_max", "others": [rec4(rnd)], "t0": rnd.randrange(100000)}
        lines.append({"new": cfg})
        lines.append({"open": "ok"})
        for i in range(rnd.randrange(3, 8)):
            if rnd.random() < 0.5:
                c.mutate()
            how = rnd.choice(["plain", "stopstart", "stopstart", "park", "parkcb", "fault"])
            ex = {"alts": c.alts()}
            if how == "stopstart":
                lines.append({"ex": {"stopstart": True}})
            elif how == "park":
                for a in ex["alts"]:
                    p = rnd.randrange(0, len(a["items"]) + 1)
                    a["items"] = a["items"][:p] + [{"park": "stopstart"}]
            elif how == "parkcb":
                ex["parkcb"] = rnd.randrange(1, 4)
            elif how == "fault":
                for a in ex["alts"]:
                    a["items"] = a["items"][:rnd.randrange(0, len(a["items"]) + 1)] + [{"fault": rnd.choice(["err", "closed"])}]
            lines.append({"ex": ex})
            lines.append({"open": "ok"})
        for _ in range(3):
            lines.append({"ex": {"alts": c.alts()}})
        lines.append({"run": True})
    with open(path, "w") as f:
        for ln in lines:
            f.write(json.dumps(ln) + "\n")
    return len(lines)
