"""Operation sequences for harness/hashlin_harness.c (real tommy_hashlin), judged by spec/HashLinTrace.tla.
Sizes swing across the resize thresholds of the 64-bucket table (grow above 32 / 64 / 128 ..., shrink below 1/8,
half-finished shrinks turned into growths and back); hash patterns: spread, equal low bits, equal hashes."""
import random


def hashes(rnd, n, pattern):
    if pattern == "spread":
        return [rnd.getrandbits(20) for _ in range(n)]
    if pattern == "lowbits":        # everything lands in few buckets until the table is large
        return [(rnd.randrange(4) + 64 * rnd.randrange(1 << 12)) & 0xfffff for _ in range(n)]
    if pattern == "equal":          # groups of elements with the very same hash
        pool = [rnd.getrandbits(20) for _ in range(max(2, n // 6))]
        return [rnd.choice(pool) for _ in range(n)]
    return [i for i in range(n)]    # "seq"


def sequence(rnd, pattern, targets, nmax=1500):
    hs = hashes(rnd, nmax, pattern)
    present, absent = [], list(range(1, nmax + 1))
    rnd.shuffle(absent)
    lines = ["new"]
    for t in targets:
        while len(present) != t:
            if len(present) < t:
                e = absent.pop()
                present.append(e)
                lines.append("ins %d %d" % (e, hs[e - 1]))
            else:
                e = present.pop(rnd.randrange(len(present)))
                absent.append(e)
                lines.append("rem %d %d" % (e, hs[e - 1]))
            if rnd.random() < 0.03 and absent:          # removal of an element that is not there
                x = rnd.choice(absent)
                lines.append("rem %d %d" % (x, hs[x - 1]))
    return lines


def write_script(path, seed, nseq, big):
    rnd = random.Random(seed * 7919 + 13)
    lines = []
    for i in range(nseq):
        pattern = ["spread", "lowbits", "equal", "seq"][i % 4]
        peaks = [rnd.choice([34, 40, 66, 70, 130, 140] + ([260, 300, 520] if big else [])) for _ in range(4)]
        targets = []
        for p in peaks:
            low = rnd.choice([0, 1, 3, 5, 9, 12, 17, 20, p // 8, p // 8 + 1, p // 16 + 1, p // 4])
            targets += [p, low, rnd.choice([p // 2 + 1, p // 4 + 1, 33, 8])]
        targets.append(0)
        lines += sequence(rnd, pattern, targets)
    with open(path, "w") as f:
        f.write("\n".join(lines) + "\n")
    return len(lines)
