#!/usr/bin/env python3
"""Generates /verif/MANIFEST.json from the table below (single source of truth)."""
import json
import os
import sys

VERIF = os.path.dirname(os.path.dirname(os.path.abspath(__file__)))
ALL = ["C%02d" % i for i in range(1, 21)]

CHECKS = {
    "C01": dict(engine="tables", cat="model_checking", ref="5/C01",
                technique="TLC model of the trie algorithm (PfxTrie.tla) + trace validation of the real pfx_table against PfxTableTrace.tla (RFC 6811 oracle in TLA+)",
                text="TLC explores every add/remove/remove-by-source order over a small prefix universe on a node-by-node model of trie.c/trie-pfx.c and checks every verdict and reason set against RFC 6811; the real table is bound to the contract by replaying TLC-generated histories (embedded into IPv4/IPv6 space, full query sweep after every step) and by validating seeded realistic histories, every verdict and reason recomputed by TLC.",
                note="bounded constants on the model side; finite seeded samples on the code side; NDEBUG+ASan build; trusts TLC and the harness's logging"),
    "C02": dict(engine="tables", cat="model_checking", ref="5/C02",
                technique="TLC refinement PfxTrie => set semantics + trace validation of return codes, contents (enumeration as a bag) against PfxTableTrace.tla",
                text="Same model and traces as C01, monitor OK_C02: return codes, duplicate/not-found without change, remove-by-source, exactly-once enumeration with all five fields after operations in every order TLC generates and in seeded realistic histories.",
                note="as C01"),
    "C09": dict(engine="tables", cat="model_checking", ref="5/C09",
                technique="TLC on PfxTable.tla (mirror rebuilt from callbacks; reload protocol copy/swap/notify_diff) + trace validation of the callback bag of every operation",
                text="TLC checks mirror = table at every public-operation return for all histories incl. the reload protocol (net difference only); every operation of the real table logs the callbacks it emitted and TLC requires exactly the predicted bag (none missing, extra or repeated) and mirror equality.",
                note="as C01; histories driven by cache responses are covered by the protocol checks (C03)"),
    "C10": dict(engine="tables", cat="model_checking", ref="5/C10",
                technique="TLC on SpkiTable.tla (set semantics, both lookups, callback mirror, reload protocol) and on HashLin.tla (tommy_hashlin step for step: incremental grow/shrink and their reversals) + trace validation of the real spki_table against SpkiTableTrace.tla and of the real tommy_hashlin, shape for shape, against HashLinTrace.tla",
                text="TLC checks the key-table contract exhaustively over a 9-entry universe incl. the copy/swap/notify-diff protocol; the real table is bound by replaying TLC-generated histories with a full lookup sweep after every step and by seeded histories whose sizes walk across the linear-hash resize steps with AS numbers colliding in the hash, every lookup result (as a bag) and every callback bag recomputed by TLC.",
                note="bounded constants on the model side; finite seeded samples on the code side; NDEBUG+ASan build; trusts TLC and the harness's logging"),
    "C03": dict(engine="fsm", cat="model_checking", ref="5/C03",
                technique='TLC on MCRtrSocket (envelope of rtr.c/packets.c at seam granularity) + trace validation of the real FSM thread against RtrSocketTrace.tla, monitor OK_C03; implementation runs are driven by a TLC transition tour of the model (MCRtrSocketCover), thousands of TLC-simulated behaviours and seeded conversations',
                text="The envelope's End-of-Data action has exactly three outcomes (applied in order / untouched / purged+reset) and TLC checks the ghost properties over every conversation of the small alphabet; the real rtr_fsm_start thread is run against a scripted cache (offending PDU at every position, repeated records, transport faults at every frame, mid-frame cuts, stops mid-apply) and TLC recomputes, from the logged frames, this socket's records at every observation point (reconnect, next query, sleep, stop), the other source's records and the next query.",
                note="small alphabets on the model side (cfg header); finite seeded conversations on the code side; the simulated cache closes the connection after an Error Report; NDEBUG+ASan build, virtual clock via --wrap; trusts TLC and the harness's PDU codec/logging"),
    "C05": dict(engine="fsm", cat="model_checking", ref="5/C05",
                technique='ghost ack variable in MCRtrSocket (invariant I_C05) + trace validation of every query the real client writes to the transport (monitor OK_C05)',
                text="TLC checks on the envelope that every query equals what the last End of Data dictates (ghost ack) across failures, Cache Reset, no-data, expiry and stop/start; every query the real client sends in seeded conversations (incl. serial wrap-around values, session changes, foreign-session Cache Response / End of Data, stop issued while a response is being applied) is compared by TLC with the envelope's prediction.",
                note="small alphabets on the model side (cfg header); finite seeded conversations on the code side; the simulated cache closes the connection after an Error Report; NDEBUG+ASan build, virtual clock via --wrap; trusts TLC and the harness's PDU codec/logging"),
    "C07": dict(engine="fsm", cat="model_checking", ref="5/C07",
                technique="expiry/stop rules of RtrSocket.tla driven by the time of the last End of Data (not the implementation's timestamp) + trace validation at every transport open and after rtr_stop (monitor OK_C07)",
                text='The specification purges by its own ghost time of the last successful synchronisation, so a timestamp the implementation loses (failed reload) is caught; table contents at each open(), the type of the first query after an expiry and contents after rtr_stop are checked by TLC on traces with long outages (virtual clock), reloads interrupted at every frame, all interval settings and modes.',
                note="small alphabets on the model side (cfg header); finite seeded conversations on the code side; the simulated cache closes the connection after an Error Report; NDEBUG+ASan build, virtual clock via --wrap; trusts TLC and the harness's PDU codec/logging"),
    "C08": dict(engine="fsm", cat="model_checking", ref="5/C08",
                technique='TLC on MCRtrSocketConv (adversarial prefix, then a correct cache for ever: ESTABLISHED with the cache data within K client steps and within the wall-clock bound) + progress monitors of RtrSocketTrace.tla on traces of the real client (sleep discipline, time bound after the cache turns good, ESTABLISHED only after a completed sync) + harness watchdog for zero-time loops',
                text='After a seeded run of faults the scripted cache answers correctly (mark event with the target data set); TLC checks on the trace that the client reaches ESTABLISHED with exactly that data within refresh+expire+4*retry+240 s of virtual time, that every error path sleeps the retry interval, and the harness reports a hang when 5000 seam calls pass without time or input advancing.',
                note="small alphabets on the model side (cfg header); finite seeded conversations on the code side; the simulated cache closes the connection after an Error Report; NDEBUG+ASan build, virtual clock via --wrap; trusts TLC and the harness's PDU codec/logging"),
    "C13": dict(engine="fsm", cat="model_checking", ref="5/C13",
                technique='version rules in RtrSocket.tla (Class/NewVer, downgrade actions) + P_C13 on MCRtrSocket + trace validation of the version byte of every PDU sent and of every refusal (monitor OK_C13)',
                text='TLC checks ver never increases on the envelope; on traces every sent PDU must carry the negotiated version, a differing version on any other PDU must be answered by an Unexpected-Protocol-Version report with nothing applied, End of Data formats are tied to their version, and the three downgrade triggers (first PDU, error code 4 => immediate reconnect, hang-up before any answer) are the only ones.',
                note="small alphabets on the model side (cfg header); finite seeded conversations on the code side; the simulated cache closes the connection after an Error Report; NDEBUG+ASan build, virtual clock via --wrap; trusts TLC and the harness's PDU codec/logging"),
    "C14": dict(engine="fsm", cat="model_checking", ref="5/C14",
                technique='owed-report bookkeeping in RtrSocket.tla + TLC on TrAll.tla (transport loops: all octets or an error, one deadline per invocation) + byte-level parsing of everything the client writes under partial writes and passing time (harness) + trace validation of every Error Report (code, byte-exact encapsulated prefix, lengths) and of the timeouts of every transport send call (monitor OK_C14)',
                text='The harness splits the concatenated bytes written on a connection into PDUs by their length fields under scripted partial writes; TLC requires, for every violation class the cache script produces, exactly one Error Report with an admissible code, an encapsulated PDU that is a byte-exact prefix of the offending frame as sent, consistent lengths, size <= 3248 and the negotiated version, and none in reply to an Error Report.',
                note="small alphabets on the model side (cfg header); finite seeded conversations on the code side; the simulated cache closes the connection after an Error Report; NDEBUG+ASan build, virtual clock via --wrap; trusts TLC and the harness's PDU codec/logging"),
    "C17": dict(engine="fsm", cat="model_checking", ref="5/C17",
                technique="ApplyIv/NewIv in RtrSocket.tla + I_C17 on MCRtrSocket + TLC on TrAll.tla (one deadline per receive invocation) + trace validation of the socket's intervals after every event, of rtr_init's verdict and of the timeout of every transport receive call, also inside trickling frames (monitor OK_C17)",
                text="Boundary values (0, lo-1, lo, lo+1, hi-1, hi, hi+1, 2^31, 2^32-1) for all three intervals in End of Data under all four modes and initial settings; TLC recomputes the socket's intervals after every End of Data, checks v0 never changes them, that rtr_init rejects out-of-range settings, and that the timeout handed to the transport while established is max(0, last sync + refresh - now) followed at once by a Serial Query.",
                note="small alphabets on the model side (cfg header); finite seeded conversations on the code side; the simulated cache closes the connection after an Error Report; NDEBUG+ASan build, virtual clock via --wrap; trusts TLC and the harness's PDU codec/logging"),
    "C15": dict(engine="mgr", cat="model_checking", ref="5/C15",
                technique="TLC on MCRtrMgr (RtrMgr.tla: rtr_mgr_cb and friends as coded; the four clauses of C15 as action properties) + trace validation of the real rtr_mgr code under TLC-generated and seeded event sequences (RtrMgrTrace.tla) + trace validation of the real rtr_start/rtr_stop under stop/start cycles against what the manager model assumes of the socket layer (RtrSocketTrace.tla, monitor OK_STUB)",
                text="TLC explores every sequence of legal socket state changes, expiries, group additions and removals for 3x1, 2x2 (quick) and dynamic (thorough) configurations and checks: ESTABLISHED only if all sockets hold data, all less-preferred groups closed on establishment, never stopped for a worse group, failover starts the most-preferred closed group. The real rtr_mgr_init/cb/add/remove (rtr_start/rtr_stop link-wrapped) is driven by TLC-generated and seeded sequences incl. invalid configurations; statuses in for_each order, first group, running sockets, callbacks and return codes are checked by TLC after every step.",
                note="rtr_start/rtr_stop are stubs reproducing their state effects; bounded configurations on the model side; seeded samples on the code side; NDEBUG+ASan"),
    "C04": dict(engine="fsm", cat="exploration", ref="5/C04",
                technique="outcome function in RtrSocket.tla (well-formedness classes => never applied, exchange fails) decided by trace validation; memory safety / assertions / termination by an ASan+UBSan build with assertions enabled and the harness watchdog; two chunkings per stream",
                text="Seeded hostile streams (hostile field values, every length-field pathology per type, truncation at every byte, unknown types, Error Reports with inconsistent inner lengths, framed noise) are fed to the real FSM thread and to the established-state wait, each stream byte-at-a-time and in random chunks; a crash, sanitizer report, assertion failure or watchdog hit is a violation, both traces must be accepted by RtrSocketTrace.tla (OK_C04: tables and callbacks change only as the envelope predicts) and their chunk-independent projections must be equal.",
                note="finite seeded sample; sanitizers are instruments, not proofs; UBSan's alignment check is excluded (x86 tolerates the unaligned stores in packets.c); TLA+ decides the outcome function only"),
    "C19": dict(engine="iptext", cat="exploration", ref="5/C19",
                technique="IpText.tla enumerates the RFC 4291 text forms with the address each denotes; IpTextTrace.tla judges every call of the library against the generator and the platform's inet_pton; ASan and MSan builds",
                text="6151 generated IPv6 texts (every zero-run position/length, three spellings, embedded IPv4), their truncations and single-character mutations, structured and seeded IPv4/IPv6 addresses: parse equals the denoted address and inet_pton; every string inet_pton accepts is accepted with the same result; formatting round-trips through library and inet_pton; no write beyond the given length for every length 0..50 (canaries); results depend on the text only (two stack fills + MemorySanitizer on accepted results).",
                note="glibc inet_pton is the external oracle; TLA+ serves as generator and judge, it cannot decide the platform parser"),
    "C20": dict(engine="names", cat="model_checking", ref="5/C20",
                technique="Names.tla over enumerator lists generated from the public headers at check time; exhaustive over an integer range; ASan+UBSan build, one forked child per value",
                text="For every integer in -3..40 (quick) / -300..1000 (thorough) TLC decides from the header-derived enumerator lists what rtr_state_to_str / rtr_mgr_status_to_str must return (the enumerator's name, or NULL); the real functions are called in an ASan build where the name tables have red zones.",
                note="finite range enumerated completely; enumerators assumed consecutive from 0 (checked by the generator)"),
    "C18": dict(engine="alloc", cat="fault_enumeration", ref="5/C18",
                technique="k-th-allocation failure enumeration through lrtr_set_alloc_functions with a tagged-header allocator; every run's trace validated against the table trace specs whose failing variants (OpFails: error, nothing changed, no callback) are admissible only in the call where the failure was injected; whole synchronisations (incl. responses that fail and are rolled back) validated by RtrSocketTrace.tla (OK_C18): no crash/hang, callbacks consistent, other sources untouched, and the exchange hit by the failure ends as predicted, as before it, or purged with a Reset Query due",
                text="For each table history a counting run checks that nothing stays allocated and no block reaches the wrong allocator; then every allocation k is failed once in a fresh process. TLC accepts a run only if the operation that saw the failure either reported an error with no effect at all or succeeded, and all later operations behave per contract (set semantics intact). A process that dies is an observation identified by the rtrlib/tommyds function whose allocation was failed. The same enumeration over conversations with full loads, deltas, atomic reloads and failing responses of every family (roll-backs under allocation failure) checks no crash/hang, other sources' records untouched, callbacks consistent, and that the next query together with the table contents matches one of the three admissible outcomes.",
                note="single failures per run; private reload helpers excluded from the table histories; one open known finding (tommy_hashlin_init)"),
    "C16": dict(engine="conc", cat="model_checking", ref="5/C16",
                technique="TLC on TableConc.tla (RaceFree, Linearizable, NoTornRead over every interleaving of lock calls and accesses) + trace validation of reads by concurrent threads against versions replayed on the table contracts (ConcTrace.tla) + ThreadSanitizer build",
                text="A writer thread runs a seeded history on both tables and publishes an operation counter around every call; readers validate, look up keys and enumerate, logging the counter at call and return; TLC replays the writer's history on PfxTable/SpkiTable semantics (RFC 6811 oracle) and accepts a read iff some version inside its interval gives that answer. The same workload in a TSan build: any data-race report on rtrlib/tommyds frames is a violation; ASan turns use-after-free by a reader into a crash.",
                note='lock-protocol model exhaustive for 2 readers x 3 mutations; on the code side schedules are sampled by the OS scheduler (plus one steered reader for C06); acceptance criteria are sound for any schedule, a race window can be missed; ASan/TSan as instruments'),
    "C06": dict(engine="conc", cat="model_checking", ref="5/C06",
                technique="TLC on ReloadConc.tla (the reload protocol step by step: copy under the read lock, private build, swap of both root pointers under the write lock, diff, free of the old generation; OneGeneration, NoUseAfterFree, Fresh, RaceFree over every interleaving with two readers) and TableConc.tla + trace validation (ConcTrace.tla) of reader threads running against atomic reloads performed by the real rtr_sync(); one reader is steered (link-time wrap of pthread_rwlock_rdlock) to sit at the lock across each reload",
                text="The real rtr_sync() reloads thousands of records (scripted in-memory transport, with and without router keys) while readers validate probe routes and look up probe keys; each read logs a global sequence number at call and return and the generations complete / in progress; TLC accepts a read iff it equals the data of exactly one generation in that window (never empty or mixed) and no read that starts after another returned sees an older generation (per table).",
                note='lock-protocol model exhaustive for 2 readers x 3 mutations; on the code side schedules are sampled by the OS scheduler (plus one steered reader for C06); acceptance criteria are sound for any schedule, a race window can be missed; ASan/TSan as instruments'),
    "C11": dict(engine="bgpsec", cat="exploration", ref="5/C11",
                technique="symbolic model Bgpsec.tla (signatures as terms over RFC 8205 digest tuples; Expected(case) = admissible results) enumerated by TLC into a case analysis; harness concretises with fresh P-256 keys and an independent RFC 8205 serialiser; BgpsecTrace.tla judges every library verdict",
                text="Every key-table variant per hop (right key, two keys per SKI, wrong key, key under another AS only, no key, key withdrawn mid-validation) for 1-3 hops, every single-field corruption (target, pCount, flags, AS, SAFI, AFI, NLRI bit, NLRI length, SKI, signature value, signature DER framing) at every hop, and the argument errors; IPv4 and IPv6 NLRI of varying bit length; signatures made by the harness's own digest serialiser + ECDSA_sign. VALID is accepted only where the model says every hop verifies under a key of its AS and SKI; specific codes otherwise. One open known finding (keys are looked up by SKI only).",
                note="OpenSSL libcrypto and the harness's own RFC 8205 serialiser are the trusted base for ECDSA, SHA-256 and the byte layout; TLA+ decides the decision structure only; seeded concretisations; ASan build"),
    "C12": dict(engine="bgpsec", cat="exploration", ref="5/C12",
                technique="Bgpsec.tla GenExpected + hop-by-hop construction with rtr_bgpsec_generate_signature; every produced segment parsed as DER and verified by an independent RFC 8205 digest + ECDSA_verify; finished paths validated; BgpsecTrace.tla judges; paths are assembled alternately with the append and the prepend helpers, which BgpsecSeg.tla models and BgpsecSegTrace.tla validates call by call (extra conformance)",
                text="Originations and forwardings for paths of 1-4 hops over IPv4 NLRI lengths 0..32 and IPv6 lengths 0..128 (all lengths in the thorough tier), random pCount/flags/AS, fresh keys: each generated Signature Segment must be well-formed DER, verify under the public key against the harness's own serialisation of the RFC 8205 section 4.2 digest, and the finished path must validate as VALID; unloadable key, unsupported suite/AFI and wrong segment count must yield their codes.",
                note="OpenSSL libcrypto and the harness's own RFC 8205 serialiser are the trusted base for ECDSA, SHA-256 and the byte layout; TLA+ decides the decision structure only; seeded concretisations; ASan build"),
}

NA_REASON = "check not built yet in this round (planned: see DESIGN.md section 5); no claim is made"


def main():
    checks = []
    for pid in ALL:
        if pid not in CHECKS:
            continue
        c = CHECKS[pid]
        checks.append({
            "property_id": pid,
            "quick_cmd": "bin/check %s --tier quick" % pid,
            "thorough_cmd": "bin/check %s --tier thorough" % pid,
            "evidence_file": "evidence/%s.json" % pid,
            "replay_cmd_template": "bin/check %s --replay {path}" % pid,
            "engine": c["engine"],
            "level_claimed": {"category": c["cat"], "text": c["text"], "design_ref": c["ref"]},
            "level_note": c["note"],
            "technique": c["technique"],
        })
    engines = {}
    for pid, c in CHECKS.items():
        engines.setdefault(c["engine"], []).append(pid)
    m = {
        "version": 1,
        "setup_cmd": "bin/setup",
        "hooks": {
            "guard": "RTRLIB_VERIF",
            "enable": "checks compile /repo's working-tree sources directly with clang -DRTRLIB_VERIF (lib/vlib.py build_lib); no hook exists in rtrlib at present, the seams used are public function pointers and link-time --wrap",
            "baseline_off_cmd": "bin/baseline",
            "source_commits": [],
            
            "add_only": True,
        },
        "engines": [{"name": k, "path": "lib/checks/%s.py" % k, "serves_properties": sorted(v),
                     "kind_free_text": "TLA+ specification checked by TLC + conformance harness (trace validation / behaviour replay)"}
                    for k, v in sorted(engines.items())],
        "checks": checks,
        "not_applicable": [{"property_id": p, "reason": NA_REASON} for p in ALL if p not in CHECKS],
        "notes": "All checks: bin/check <ID> [--tier quick|thorough] [--replay dir]; exit 0 held / 1 VIOLATION / 2 machinery failure. known_findings.json lists recorded defects.",
    }
    json.dump(m, open(os.path.join(VERIF, "MANIFEST.json"), "w"), indent=1)
    print("MANIFEST.json written:", len(checks), "checks,", len(m["not_applicable"]), "not applicable")


if __name__ == "__main__":
    main()
