#!/usr/bin/env python3
"""Generates /verif/MANIFEST.json from the table below (single source of truth)."""
import json
import os
import sys

VERIF = os.path.dirname(os.path.dirname(os.path.abspath(__file__)))
ALL = ["C%02d" % i for i in range(1, 21)]

CHECKS = {
    "C01": dict(engine="tables", cat="model_checking", ref="5/C01",
                technique="TLC model of the trie algorithm (PfxTrie.tla) + trace validation of the real pfx_table against PfxTableTrace.tla (RFC 6811 oracle in TLA+)",
                text="TLC explores every add/remove/remove-by-source order over a small prefix universe on a node-by-node model of trie.c/trie-pfx.c and checks every verdict and reason set against RFC 6811; the real table is bound to the contract by replaying TLC-generated histories (embedded into IPv4/IPv6 space, full query sweep after every step) and by validating seeded realistic histories, every verdict and reason recomputed by TLC.",
                note="bounded constants on the model side; finite seeded samples on the code side; NDEBUG+ASan build; trusts TLC and the harness's logging"),
    "C02": dict(engine="tables", cat="model_checking", ref="5/C02",
                technique="TLC refinement PfxTrie => set semantics + trace validation of return codes, contents (enumeration as a bag) against PfxTableTrace.tla",
                text="Same model and traces as C01, monitor OK_C02: return codes, duplicate/not-found without change, remove-by-source, exactly-once enumeration with all five fields after operations in every order TLC generates and in seeded realistic histories.",
                note="as C01"),
    "C09": dict(engine="tables", cat="model_checking", ref="5/C09",
                technique="TLC on PfxTable.tla (mirror rebuilt from callbacks; reload protocol copy/swap/notify_diff) + trace validation of the callback bag of every operation",
                text="TLC checks mirror = table at every public-operation return for all histories incl. the reload protocol (net difference only); every operation of the real table logs the callbacks it emitted and TLC requires exactly the predicted bag (none missing, extra or repeated) and mirror equality.",
                note="as C01; histories driven by cache responses are covered by the protocol checks (C03)"),
    "C10": dict(engine="tables", cat="model_checking", ref="5/C10",
                technique="TLC on SpkiTable.tla (set semantics, both lookups, callback mirror, reload protocol) + trace validation of the real spki_table against SpkiTableTrace.tla",
                text="TLC checks the key-table contract exhaustively over a 9-entry universe incl. the copy/swap/notify-diff protocol; the real table is bound by replaying TLC-generated histories with a full lookup sweep after every step and by seeded histories whose sizes walk across the linear-hash resize steps with AS numbers colliding in the hash, every lookup result (as a bag) and every callback bag recomputed by TLC.",
                note="bounded constants on the model side; finite seeded samples on the code side; NDEBUG+ASan build; trusts TLC and the harness's logging"),
}

NA_REASON = "check not built yet in this round (planned: see DESIGN.md section 5); no claim is made"


def main():
    checks = []
    for pid in ALL:
        if pid not in CHECKS:
            continue
        c = CHECKS[pid]
        checks.append({
            "property_id": pid,
            "quick_cmd": "bin/check %s --tier quick" % pid,
            "thorough_cmd": "bin/check %s --tier thorough" % pid,
            "evidence_file": "evidence/%s.json" % pid,
            "replay_cmd_template": "bin/check %s --replay {path}" % pid,
            "engine": c["engine"],
            "level_claimed": {"category": c["cat"], "text": c["text"], "design_ref": c["ref"]},
            "level_note": c["note"],
            "technique": c["technique"],
        })
    engines = {}
    for pid, c in CHECKS.items():
        engines.setdefault(c["engine"], []).append(pid)
    m = {
        "version": 1,
        "setup_cmd": "bin/setup",
        "hooks": {
            "guard": "RTRLIB_VERIF",
            "enable": "checks compile /repo's working-tree sources directly with clang -DRTRLIB_VERIF (lib/vlib.py build_lib); no hook exists in rtrlib at present, the seams used are public function pointers and link-time --wrap",
            "baseline_off_cmd": "bin/baseline",
            "source_commits": [],
            
            "add_only": True,
        },
        "engines": [{"name": k, "path": "lib/checks/%s.py" % k, "serves_properties": sorted(v),
                     "kind_free_text": "TLA+ specification checked by TLC + conformance harness (trace validation / behaviour replay)"}
                    for k, v in sorted(engines.items())],
        "checks": checks,
        "not_applicable": [{"property_id": p, "reason": NA_REASON} for p in ALL if p not in CHECKS],
        "notes": "All checks: bin/check <ID> [--tier quick|thorough] [--replay dir]; exit 0 held / 1 VIOLATION / 2 machinery failure. known_findings.json lists recorded defects.",
    }
    json.dump(m, open(os.path.join(VERIF, "MANIFEST.json"), "w"), indent=1)
    print("MANIFEST.json written:", len(checks), "checks,", len(m["not_applicable"]), "not applicable")


if __name__ == "__main__":
    main()
