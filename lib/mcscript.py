"""Turns behaviours of MCRtrSocket (sequences of seam events chosen by TLC) into scripts for
harness/fsm_harness.c: the environment's choices (open results, frames, transport faults, send
failures, stops) are replayed against the real client; the client's own outputs are not scripted."""
import json

RECS = {
    "4:a": {"k": "4", "pfx": "0a000000", "len_": 8, "max": 16, "asn": "65000"},
    "6:b": {"k": "6", "pfx": "20010db8000000000000000000000000", "len_": 32, "max": 48, "asn": "65001"},
    "k:c": {"k": "k", "asn": "65002", "ski": 3, "spki": 7},
    "4:o": {"k": "4", "pfx": "c6336400", "len_": 24, "max": 24, "asn": "64511"},
}


def frame(f):
    t = f["t"]
    o = {"t": t, "v": f["v"]}
    if t in ("cache_response", "serial_notify", "serial_query", "eod"):
        o["sess"] = f.get("sess", 0)
    if "sn" in f:
        o["sn"] = f["sn"]
    if t == "eod" and "iv" in f:
        o.update({"refresh": f["iv"]["r"]["s"], "retry": f["iv"]["t"]["s"], "expire": f["iv"]["e"]["s"]})
    if t in ("ipv4", "ipv6", "router_key"):
        r = RECS[f["rec"]]
        o["flags"] = f["flags"]
        if t == "router_key":
            o.update({"asn": r["asn"], "ski": r["ski"], "spki": r["spki"]})
        else:
            o.update({"len_": r["len_"], "max": r["max"], "pfx": r["pfx"], "asn": r["asn"]})
        nat = {"ipv4": 20, "ipv6": 32, "router_key": 123}[t]
        if f["len"]["n"] != nat:
            o["len"] = f["len"]["n"]
    if t == "error":
        o.update({"code": f["code"], "enc": "", "txt": ""})
    if t == "unknown":
        o["tn"] = 200
    return o


def behaviours_to_script(behs, path, epilogue=True):
    n = 0
    with open(path, "w") as out:
        def w(o):
            nonlocal n
            out.write(json.dumps(o) + "\n")
            n += 1
        for beh in behs:
            cur = None          # items of the exchange being built

            def flush():
                nonlocal cur
                if cur is not None:
                    w({"ex": cur})
                    cur = None
            started = False
            for e in beh:
                k = e["e"]
                if k == "init":
                    w({"new": {"refresh": "100", "retry": "700", "expire": "600", "mode": e["mode"], "others": [RECS["4:o"]]}})
                    started = True
                elif not started:
                    continue
                elif k == "open":
                    flush()
                    w({"open": e["rc"]})
                elif k == "send" and e["t"] in ("reset_query", "serial_query"):
                    flush()
                    cur = {"alts": [{"q": "any", "items": []}]}
                elif k == "sendfail":
                    flush()
                    w({"ex": {"sendrc": "err", "alts": []}})
                elif k == "recv" and cur is not None:
                    cur["alts"][0]["items"].append({"f": frame(e["f"])})
                elif k == "rfault" and cur is not None:
                    cur["alts"][0]["items"].append({"fault": e["kind"]})
                elif k == "stop":
                    if cur is not None:
                        cur["alts"][0]["items"].append({"park": "stopstart"})
                    else:
                        w({"ex": {"stopstart": True}})
            flush()
            if started and epilogue:
                # let the client show where the last scripted event left it: the connection (re)opens and one more
                # query is accepted (its type, version, session and serial are then checked by the trace spec)
                w({"open": "ok"})
                w({"open": "ok"})
                w({"ex": {"alts": [{"q": "any", "items": [{"fault": "timeout"}]}]}})
            if started:
                w({"run": True})
    return n
