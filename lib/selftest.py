#!/usr/bin/env python3
"""Self-tests of the machinery (run by bin/setup): encoding round trips."""
import os
import sys
sys.path.insert(0, os.path.dirname(os.path.abspath(__file__)))
sys.path.insert(0, os.path.join(os.path.dirname(os.path.abspath(__file__)), "checks"))


def main():
    import tables
    assert tables.words([1, 0, 1], 32) == [0xA000, 0]
    assert tables.words([1] * 17, 32) == [0xffff, 0x8000]
    assert tables.words([0] * 127 + [1], 128)[-1] == 1
    print("selftest ok")


if __name__ == "__main__":
    main()
