#!/usr/bin/env python3
"""Self-tests of the machinery (run by bin/setup): encoding round trips."""
import os
import sys
sys.path.insert(0, os.path.dirname(os.path.abspath(__file__)))
sys.path.insert(0, os.path.join(os.path.dirname(os.path.abspath(__file__)), "checks"))


def main():
    import tables
    assert tables.words([1, 0, 1], 32) == [0xA000, 0]
    assert tables.words([1] * 17, 32) == [0xffff, 0x8000]
    assert tables.words([0] * 127 + [1], 128)[-1] == 1
    import gzip, json, fsm, vlib
    tp = os.path.join(vlib.SPEC, "tour", "MCRtrSocketCover.json.gz")
    try:
        with gzip.open(tp, "rt") as f:
            dg = json.load(f).get("digest")
    except (OSError, ValueError):
        dg = None
    if dg != fsm.tour_digest():
        print("note: spec/tour/MCRtrSocketCover.json.gz was made from earlier spec files (digest %s, now %s): still usable (the tour "
              "only supplies inputs), but run tools/gen_tour.py and commit to cover transitions added since" % (dg, fsm.tour_digest()))
    print("selftest ok")


if __name__ == "__main__":
    main()
