"""Trace validation with known-finding switches, reproducibility re-run and replay artefacts."""
import json
import os
import re

import vlib


def write_cfg(path, template, invariants, switches=None):
    """Instantiate spec/<template>: replace the INVARIANTS line and set KF_* constants."""
    s = open(os.path.join(vlib.SPEC, template)).read()
    s = re.sub(r"(?m)^INVARIANTS.*$", "INVARIANTS " + invariants, s)
    for k, v in (switches or {}).items():
        s = re.sub(r"(?m)^(\s*%s\s*=\s*)(TRUE|FALSE)" % re.escape(k), r"\g<1>" + ("TRUE" if v else "FALSE"), s)
    on = sorted(k for k, v in (switches or {}).items() if v)
    s = re.sub(r"(?m)^(\s*KF\s*=\s*)\{[^}]*\}", r"\g<1>{" + ", ".join('"%s"' % k for k in on) + "}", s)
    open(path, "w").write(s)
    return path


class TraceChecker:
    def __init__(self, ctx, verdict, wd, module, template, invariants, timeout=900, dfs=False):
        self.ctx, self.verdict, self.wd = ctx, verdict, wd
        self.module, self.template, self.invariants = module, template, invariants
        self.timeout, self.dfs = timeout, dfs
        self.traces = 0
        self.events = 0
        self.kf_switches = {f["switch"]: False for f in vlib.load_findings()
                            if f["property"] == ctx.pid and f.get("status") == "open" and f.get("switch")}
        self.cfg_strict = write_cfg(os.path.join(wd, "trace_strict_%s.cfg" % module), template, invariants,
                                    {k: False for k in self.kf_switches})
        self.cfg_kf = None
        if self.kf_switches:
            self.cfg_kf = write_cfg(os.path.join(wd, "trace_kf_%s.cfg" % module), template, invariants + " KfReport",
                                    {k: True for k in self.kf_switches})

    def _run(self, cfg, trace, tag):
        return vlib.validate_trace(self.module, cfg, trace, self.ctx.pid + "-" + tag, timeout=self.timeout, dfs=self.dfs)

    def validate(self, trace, tag, meta, extra_files=()):
        """True iff the trace is a behaviour of the specification (possibly through listed findings)."""
        pid = self.ctx.pid
        n_exec = max(1, sum(1 for line in open(trace) if '"e":"reset"' in line))
        n_ev = sum(1 for _ in open(trace))
        acc, matched, total, r = self._run(self.cfg_strict, trace, tag)
        if acc:
            self.traces += n_exec
            self.events += n_ev
            return True
        if self.cfg_kf:
            acc_k, m_k, _, r_k = self._run(self.cfg_kf, trace, tag + "-kf")
            if acc_k:
                used = vlib.kf_used(r_k.out)
                for f in vlib.load_findings():
                    if f["property"] == pid and f.get("status") == "open" and (f["key"] in used or not used):
                        self.verdict.deviation(f["key"], f["what"])
                self.traces += n_exec
                self.events += n_ev
                return True
            matched, r = m_k, r_k          # report the residual deviation (beyond the listed findings)
        # reproducibility: only a rejection that repeats is reported
        cfg2 = self.cfg_kf or self.cfg_strict
        acc2, matched2, _, r2 = self._run(cfg2, trace, tag + "-re")
        if acc2:
            vlib.log("rejection of %s not reproducible; ignored" % trace)
            return True
        lines = open(trace).read().splitlines()
        idx = matched2 - 1 if r2.violation and r2.violation != "postcondition" else matched2
        idx = min(max(idx, 0), len(lines) - 1) if lines else 0
        bad_line = lines[idx] if lines else "<empty trace>"
        mpath = os.path.join(self.wd, "meta.json")
        json.dump(meta, open(mpath, "w"))
        rp = vlib.save_replay(pid, "%s-seed%d" % (tag, self.ctx.seed), [trace, mpath] + list(extra_files))
        try:
            ev = json.loads(bad_line)
        except ValueError:
            ev = {}
        key = "%s:%s@%s" % (pid, r2.violation or "unexplained-event", ev.get("e", "?"))
        self.verdict.deviation(key, "trace line %d of %d not explained by %s (monitor %s): %s"
                               % (idx + 1, total, self.module, r2.violation or "no enabled action", bad_line[:500]), rp)
        return False


def extra_conformance(ctx, wd, module, template, invariant, trace, what):
    """Conformance beyond the listed properties: reported in the evidence, never a violation."""
    cfg = write_cfg(os.path.join(wd, "trace_ext_%s.cfg" % module), template, invariant, {})
    acc, matched, total, r = vlib.validate_trace(module, cfg, trace, ctx.pid + "-ext", timeout=900)
    return {"what": what, "spec": module, "monitor": invariant, "events": total, "accepted": bool(acc),
            "first_unexplained_line": None if acc else matched}
