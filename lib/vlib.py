"""Common machinery for the rtrlib verification checks.

Everything here is plain python3 (no third-party modules).  A check is a
function run(ctx) in lib/checks/<name>.py; bin/check dispatches to it.

Pipeline (DESIGN.md 3.4):  build -> model (TLC) -> bind A/B -> verdict -> evidence.
"""
import hashlib
import json
import os
import re
import shutil
import subprocess
import sys
import time
from concurrent.futures import ThreadPoolExecutor

VERIF = os.path.dirname(os.path.dirname(os.path.abspath(__file__)))
REPO = os.environ.get("VERIF_REPO", "/repo")
SPEC = os.path.join(VERIF, "spec")
HARNESS = os.path.join(VERIF, "harness")
BUILD = os.path.join(VERIF, "build")
EVIDENCE = os.path.join(VERIF, "evidence")
REPLAYS = os.path.join(VERIF, "replays")
GUARD = "RTRLIB_VERIF"

# the sources of the library proper (CMakeLists.txt RTRLIB_SRC, without the ssh transport)
RTRLIB_SRC = [
    "rtrlib/rtr_mgr.c", "rtrlib/lib/utils.c", "rtrlib/lib/alloc_utils.c",
    "rtrlib/lib/convert_byte_order.c", "rtrlib/lib/ip.c", "rtrlib/lib/ipv4.c",
    "rtrlib/lib/ipv6.c", "rtrlib/lib/log.c", "rtrlib/pfx/trie/trie.c",
    "rtrlib/pfx/trie/trie-pfx.c", "rtrlib/transport/transport.c",
    "rtrlib/transport/tcp/tcp_transport.c", "rtrlib/rtr/rtr.c", "rtrlib/rtr/packets.c",
    "rtrlib/spki/hashtable/ht-spkitable.c", "third-party/tommyds/tommy.c",
    "rtrlib/bgpsec/bgpsec.c", "rtrlib/bgpsec/bgpsec_utils.c",
]

FLAVOURS = {
    # how the project ships (RelWithDebInfo => NDEBUG) + ASan/UBSan as instruments
    # (UBSan reports are recoverable here: they are diagnostics, only C04 treats them as violations)
    "asan": ["-g", "-O1", "-DNDEBUG", "-fsanitize=address,undefined", "-fno-omit-frame-pointer",
             "-fsanitize-recover=undefined"],
    # assertions enabled (property C04 is stated for this flavour)
    "asan-assert": ["-g", "-O1", "-UNDEBUG", "-fsanitize=address,undefined", "-fno-omit-frame-pointer",
                    "-fno-sanitize-recover=undefined"],
    "plain": ["-g", "-O1", "-DNDEBUG"],
    "tsan": ["-g", "-O1", "-DNDEBUG", "-fsanitize=thread", "-fno-omit-frame-pointer"],
    "msan": ["-g", "-O1", "-DNDEBUG", "-fsanitize=memory", "-fsanitize-memory-track-origins",
             "-fno-omit-frame-pointer"],
}


class InfraError(Exception):
    """Failure of the machinery itself (exit 2, never a VIOLATION)."""


def log(*a):
    print("[verif]", *a, file=sys.stderr, flush=True)


def sh(cmd, timeout=None, cwd=None, env=None, check=False, input=None):
    e = dict(os.environ)
    if env:
        e.update(env)
    p = subprocess.run(cmd, cwd=cwd, env=e, stdout=subprocess.PIPE, stderr=subprocess.STDOUT,
                       timeout=timeout, input=input, text=True, errors="replace")
    if check and p.returncode != 0:
        raise InfraError("command failed (%d): %s\n%s" % (p.returncode, " ".join(cmd), p.stdout[-4000:]))
    return p.returncode, p.stdout


def mkdir(p, clean=False):
    if clean and os.path.isdir(p):
        shutil.rmtree(p)
    os.makedirs(p, exist_ok=True)
    return p


# --------------------------------------------------------------------------- build

def build_lib(name, flavour, extra_cflags=(), srcs=None):
    """Compile /repo's *working tree* sources into build/<name>/obj/*.o (always recompiled)."""
    out = mkdir(os.path.join(BUILD, name, "obj"), clean=True)
    cflags = ["-std=gnu99", "-w", "-I" + REPO, "-D" + GUARD, "-D_GNU_SOURCE"] + FLAVOURS[flavour] + list(extra_cflags)
    srcs = srcs or RTRLIB_SRC
    objs = []

    def one(src):
        o = os.path.join(out, src.replace("/", "_")[:-2] + ".o")
        rc, outp = sh(["clang"] + cflags + ["-c", os.path.join(REPO, src), "-o", o])
        if rc != 0:
            raise InfraError("rtrlib does not compile: %s\n%s" % (src, outp[-3000:]))
        return o

    with ThreadPoolExecutor(max_workers=16) as ex:
        objs = list(ex.map(one, srcs))
    return objs


def build_harness(name, flavour, harness_srcs, objs, wraps=(), extra_cflags=(), libs=("-lcrypto", "-lpthread"),
                  exe="harness"):
    out = mkdir(os.path.join(BUILD, name))
    exe = os.path.join(out, exe)
    cflags = ["-std=gnu11", "-w", "-I" + REPO, "-I" + HARNESS, "-D" + GUARD, "-D_GNU_SOURCE"] + FLAVOURS[flavour] + list(extra_cflags)
    ld = []
    for w in wraps:
        ld.append("-Wl,--wrap=" + w)
    cmd = ["clang"] + cflags + [os.path.join(HARNESS, s) for s in harness_srcs] + objs + ld + list(libs) + ["-o", exe]
    rc, outp = sh(cmd)
    if rc != 0:
        raise InfraError("harness does not build: %s\n%s" % (name, outp[-4000:]))
    return exe


SAN_ENV = {
    "ASAN_OPTIONS": "detect_leaks=0:abort_on_error=0:exitcode=99:allocator_may_return_null=1",
    "UBSAN_OPTIONS": "print_stacktrace=0:halt_on_error=0",
    "TSAN_OPTIONS": "exitcode=66:halt_on_error=0",
    "MSAN_OPTIONS": "exitcode=97",
}

# --------------------------------------------------------------------------- TLC

TLC_JAR = "/opt/veriftools/tla/tla2tools.jar:/opt/veriftools/tla/CommunityModules-deps.jar"


class TlcResult:
    def __init__(self):
        self.rc = None
        self.out = ""
        self.generated = 0
        self.distinct = 0
        self.depth = 0
        self.ok = False          # completed, no error
        self.violation = None    # name of violated invariant/property (or "postcondition")
        self.coverage = {}       # action -> (taken, generated)
        self.wall = 0.0
        self.error = None        # infra error text

    def summary(self):
        return {"generated": self.generated, "distinct": self.distinct, "depth": self.depth,
                "ok": self.ok, "violation": self.violation, "wall_s": round(self.wall, 2)}


def run_tlc(module, cfg, tag, workers=None, simulate=None, depth=None, seed=None, env=None, timeout=900,
            coverage=False, xmx="8g", extra=(), deadlock=False, dfs=False):
    """Run TLC on spec/<module>.tla with spec/<cfg>. Returns TlcResult."""
    meta = mkdir(os.path.join(BUILD, "tlc", tag), clean=True)
    jopts = ["-XX:+UseParallelGC", "-Xmx" + xmx, "-Xss16m"]
    if dfs:
        jopts.append("-Dtlc2.tool.queue.IStateQueue=StateDeque")
    cmd = ["timeout", str(timeout), "java"] + jopts + ["-cp", TLC_JAR, "tlc2.TLC",
           "-metadir", meta, "-noGenerateSpecTE", "-config", cfg]
    if workers:
        cmd += ["-workers", str(workers)]
    if simulate:
        cmd += ["-simulate", "num=%d" % simulate]
    if depth:
        cmd += ["-depth", str(depth)]
    if seed is not None:
        cmd += ["-seed", str(seed)]
    if coverage:
        cmd += ["-coverage", "1"]
    if not deadlock:
        cmd += ["-deadlock"]          # TLC's flag *disables* deadlock checking
    cmd += list(extra) + [module]
    t0 = time.time()
    rc, out = sh(cmd, cwd=SPEC, env=env)
    r = TlcResult()
    r.rc, r.out, r.wall = rc, out, time.time() - t0
    m = re.findall(r"(\d+) states generated, (\d+) distinct states found", out)
    if m:
        r.generated, r.distinct = int(m[-1][0]), int(m[-1][1])
    m = re.findall(r"The depth of the complete state graph search is (\d+)", out)
    if m:
        r.depth = int(m[-1])
    for mm in re.finditer(r"<(\w+) line \d+, col \d+ to line \d+, col \d+ of module (\w+)>: (\d+):(\d+)", out):
        r.coverage[mm.group(1)] = (int(mm.group(3)), int(mm.group(4)))
    if "Model checking completed. No error has been found." in out or \
       (simulate and rc == 0 and "Error:" not in out):
        r.ok = True
    mv = re.search(r"Invariant (\w+) is violated", out)
    if mv:
        r.violation = mv.group(1)
    mv = re.search(r"Action property (\w+) is violated|Temporal properties were violated", out)
    if mv and not r.violation:
        r.violation = mv.group(1) or "temporal"
    if re.search(r"Postcondition .* is false|The postcondition", out) and not r.violation:
        r.violation = "postcondition"
    if rc == 124:
        r.error = "TLC timeout after %ds" % timeout
    elif not r.ok and not r.violation:
        r.error = "TLC failed (rc=%d): %s" % (rc, out[-3000:])
    shutil.rmtree(meta, ignore_errors=True)
    return r


def tlc_model(module, cfg, tag, **kw):
    """Exhaustive/simulated model check that must succeed; anything else is infra failure or a spec bug."""
    r = run_tlc(module, cfg, tag, **kw)
    if r.error:
        raise InfraError("model %s/%s: %s" % (module, cfg, r.error))
    if r.violation:
        raise InfraError("model %s/%s: the specification itself violates %s (spec bug)\n%s"
                         % (module, cfg, r.violation, r.out[-3000:]))
    return r


def tlc_behaviours(module, cfg, tag, num, depth, seed, workers=4, timeout=600):
    """Behaviours (history variables printed as JSON by the spec's Emit invariant) from TLC simulation."""
    r = run_tlc(module, cfg, tag, workers=workers, simulate=num, depth=depth, seed=seed, timeout=timeout)
    if r.error or r.violation:
        raise InfraError("behaviour generation %s/%s failed: %s %s\n%s" % (module, cfg, r.error, r.violation, r.out[-2000:]))
    behs = [json.loads(json.loads('"' + m + '"')) for m in re.findall(r'<<"BEH", "((?:[^"\\]|\\.)*)">>', r.out)]
    if not behs:
        raise InfraError("TLC produced no behaviours (%s/%s)" % (module, cfg))
    return behs


def validate_trace(trace_module, cfg, trace_path, tag, env=None, timeout=900, dfs=False, xmx="8g"):
    """Trace validation: returns (accepted, matched_prefix_len, total, TlcResult)."""
    e = {"TRACE": trace_path}
    if env:
        e.update(env)
    r = run_tlc(trace_module, cfg, tag, workers=1, env=e, timeout=timeout, dfs=dfs, xmx=xmx)
    if r.error and "TRACE-RESULT" not in r.out:
        raise InfraError("trace validation %s: %s" % (trace_module, r.error))
    total = sum(1 for _ in open(trace_path))
    m = re.findall(r'"TRACE-RESULT", (\d+), (\d+)', r.out.replace("<<", "").replace(">>", ""))
    if m:
        matched, tot = int(m[-1][0]), int(m[-1][1])
    else:
        matched, tot = max(0, r.depth - 1), total
    accepted = (r.violation is None) and r.ok and matched >= total
    return accepted, matched, total, r


def kf_used(tlc_out):
    """Known-finding deviation keys that the accepting run had to use (printed by the trace spec)."""
    keys = set()
    for line in tlc_out.splitlines():
        if '"KF-USED"' in line:
            for m in re.finditer(r'"([^"]+)"', line.split('"KF-USED"', 1)[1]):
                keys.add(m.group(1))
    return keys


# --------------------------------------------------------------------------- findings / verdict

def load_findings():
    p = os.path.join(VERIF, "known_findings.json")
    if not os.path.exists(p):
        return []
    return json.load(open(p))["findings"]


def open_findings(pid):
    return {f["key"]: f for f in load_findings() if f["property"] == pid and f.get("status") == "open"}


class Verdict:
    def __init__(self, pid):
        self.pid = pid
        self.violations = []      # (key, what, replay)
        self.known = []
        self.open = open_findings(pid)

    def deviation(self, key, what, replay=None):
        """A property-violating observation identified by `key`."""
        if key in self.open:
            if key not in [k for k, _ in self.known]:
                self.known.append((key, self.open[key]["what"]))
        else:
            self.violations.append((key, what, replay))

    def finish(self):
        for key, what in self.known:
            print("KNOWN-FINDING: property=%s %s: %s" % (self.pid, key, what), flush=True)
        seen = set()
        for key, what, replay in self.violations:
            if (key, replay) in seen:
                continue
            seen.add((key, replay))
            print("VIOLATION property=%s replay=%s" % (self.pid, replay or "-"), flush=True)
            print("  detail: %s: %s" % (key, what), flush=True)
        return 1 if self.violations else 0


def save_replay(pid, name, files):
    """Copy artefacts into replays/<pid>/<name>/ and return the directory."""
    d = mkdir(os.path.join(REPLAYS, pid, name), clean=True)
    for f in files:
        if f and os.path.exists(f):
            shutil.copy(f, d)
    return d


def write_evidence(pid, tier, seed, level, coverage, wall, violations, assumptions):
    mkdir(EVIDENCE)
    ev = {"property_id": pid, "tier": tier, "seed": int(seed), "level": level, "coverage": coverage,
          "assumptions": assumptions, "wall_s": round(wall, 2), "violations": int(violations)}
    tmp = os.path.join(EVIDENCE, pid + ".json.tmp")
    json.dump(ev, open(tmp, "w"), indent=1, sort_keys=True)
    os.replace(tmp, os.path.join(EVIDENCE, pid + ".json"))
    return ev


def read_ndjson(path, limit=None):
    out = []
    with open(path) as f:
        for i, line in enumerate(f):
            if limit is not None and i >= limit:
                break
            line = line.strip()
            if line:
                out.append(json.loads(line))
    return out


def digest(obj):
    return hashlib.sha1(json.dumps(obj, sort_keys=True).encode()).hexdigest()[:16]
