
