---------------------------- MODULE Bgpsec ----------------------------
(* Symbolic model of BGPsec path validation and signing (RFC 8205) as far as properties C11/C12  *)
(* speak about it.  A path has hops 1..n (1 = most recent signer).  The digest a hop signs is    *)
(* the TUPLE  Digest(i) = <<target(i), sig(i+1), seg(i), sig(i+2), seg(i+1), ..., seg(n), alg,    *)
(* afi, safi, nlri>>  where target(1) is the validator's AS and target(i) = AS of seg(i-1).       *)
(* A signature is the term [key, over]; Verify(k, s, d) == s.key = k /\ s.over = d  (ECDSA and    *)
(* SHA-256 themselves, and the byte layout, are outside the model: they are checked by the        *)
(* harness's independent serialiser and OpenSSL).                                                 *)
(*   kv[i]  how the key table stands for hop i:  right / two (a wrong and the right key under the *)
(*          hop's AS and SKI) / wrongkey / otheras (the right key, but registered under another   *)
(*          AS only) / none (no key with that SKI)                                                *)
(*   corrupt  one signed field changed after signing: [f, hop]                                    *)
(*   argerr   count / suite / afi / none                                                          *)
(* Expected(c) is the set of admissible results of rtr_bgpsec_validate_as_path.                   *)
EXTENDS Integers, Sequences, FiniteSets, TLC, Json

RC == [VALID |-> 1, NOT_VALID |-> 2, SUCCESS |-> 0, ERROR |-> -1, KEY_NOT_FOUND |-> -4, SUITE |-> -6, AFI |-> -7,
       COUNT |-> -8, ARGS |-> -9]
KeyVariants == {"right", "two", "garbagefirst", "wrongkey", "garbage", "otheras", "none", "vanish"}   \* garbage: 91 octets that are no P-256 key (alone, or registered before the right key);   \* vanish: the key is withdrawn while the path is being validated, and the hop's signature is damaged
Fields == {"target", "pcount", "flags", "asn", "safi", "afi12", "nlri", "nlrilen", "ski", "sig", "sigder"}   \* sigder: the DER framing of a signature is damaged

(* which hops' signatures a corruption invalidates (for the record; any non-empty set means not VALID) *)
Broken(n, f, h) ==
  CASE f \in {"target"} -> {1}
    [] f \in {"pcount", "flags"} -> 1..h
    [] f = "asn" -> 1..(IF h + 1 <= n THEN h + 1 ELSE h)      \* the AS of seg(h) is also the target of hop h+1
    [] f \in {"safi", "afi12", "nlri", "nlrilen"} -> 1..n
    [] f \in {"sig", "sigder"} -> 1..h
    [] f = "ski" -> 1..h                                      \* (and the hop's own key lookup fails)
    [] OTHER -> {}

HopVerifies(c, i) == /\ c.kv[i] \in {"right", "two", "garbagefirst"}
                     /\ (c.corrupt.f = "none" \/ i \notin Broken(c.hops, c.corrupt.f, c.corrupt.hop))
Expected(c) ==
  IF c.argerr = "count" THEN (IF c.hops = 1 THEN {RC.COUNT, RC.ARGS} ELSE {RC.COUNT})     \* one hop without its signature segment: no signature list at all
  ELSE IF c.argerr = "suite" THEN {RC.SUITE}
  ELSE IF c.argerr = "afi" THEN {RC.AFI}
  ELSE IF \E i \in 1..c.hops : c.kv[i] = "none" THEN {RC.KEY_NOT_FOUND}
  ELSE IF c.corrupt.f \in {"ski", "asn"} THEN {RC.KEY_NOT_FOUND, RC.NOT_VALID, RC.ERROR}   \* an SKI / AS no key is registered for
  ELSE IF \E i \in 1..c.hops : c.kv[i] = "vanish" THEN {RC.KEY_NOT_FOUND, RC.NOT_VALID, RC.ERROR, RC.SUCCESS}   \* anything but VALID
  ELSE IF \A i \in 1..c.hops : HopVerifies(c, i) THEN {RC.VALID}
  ELSE IF \E i \in 1..c.hops : c.kv[i] = "otheras" THEN {RC.KEY_NOT_FOUND, RC.NOT_VALID, RC.ERROR}
  ELSE {RC.NOT_VALID, RC.ERROR}                                                                     \* never VALID

(* ---- the case analysis TLC enumerates for the harness *)
NoCorr == [f |-> "none", hop |-> 0]
KV(n) == [1..n -> KeyVariants]
CasesClean(n) == {[hops |-> n, kv |-> kv, corrupt |-> NoCorr, argerr |-> "none"] : kv \in KV(n)}
CasesCorrupt(n) == {[hops |-> n, kv |-> [i \in 1..n |-> IF i % 2 = 0 THEN "two" ELSE "right"], corrupt |-> [f |-> f, hop |-> h], argerr |-> "none"] :
                      f \in Fields, h \in 1..n}
CasesArg(n) == {[hops |-> n, kv |-> [i \in 1..n |-> "right"], corrupt |-> NoCorr, argerr |-> a] : a \in {"count", "suite", "afi"}}
Cases == UNION {CasesClean(n) \cup CasesCorrupt(n) \cup CasesArg(n) : n \in 1..3}
(* design-level sanity of the decision table itself *)
ASSUME \A c \in Cases : (RC.VALID \in Expected(c)) <=> (c.argerr = "none" /\ c.corrupt.f = "none" /\ \A i \in 1..c.hops : c.kv[i] \in {"right", "two", "garbagefirst"})
ASSUME \A c \in Cases : c.corrupt.f # "none" => RC.VALID \notin Expected(c)          \* every single-field corruption is noticed
ASSUME \A c \in Cases : (\E i \in 1..c.hops : c.kv[i] = "otheras") => RC.VALID \notin Expected(c)   \* a key under another AS never helps
ASSUME PrintT(<<"CASES", ToJson(Cases)>>)
ASSUME PrintT(<<"NCASES", Cardinality(Cases)>>)

(* ---- C12: signing.  A path built hop by hop with generate_signature validates; error cases have their codes *)
GenExpected(g) == IF g.err = "key" THEN {-3} ELSE IF g.err = "suite" THEN {RC.SUITE} ELSE IF g.err = "afi" THEN {RC.AFI}
                  ELSE IF g.err = "count" THEN {RC.COUNT} ELSE {RC.SUCCESS}
=============================================================================
