SPECIFICATION Spec
CONSTANTS
  Ids = {1, 2, 3}
  MaxLen = 4
CONSTRAINT Bounded
INVARIANTS CountersExact
PROPERTIES PopUndoesPrepend RejectChangesNothing
