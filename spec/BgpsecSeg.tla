---------------------------- MODULE BgpsecSeg ----------------------------
(* The two segment lists of a struct rtr_bgpsec (rtrlib/bgpsec/bgpsec.c): Secure_Path segments and      *)
(* Signature segments, as the sequences a router manipulates while it builds an update - prepend its     *)
(* own segment, append while parsing a received attribute, pop while stripping - together with the      *)
(* counters path_len / sigs_len that rtr_bgpsec_validate_as_path and rtr_bgpsec_generate_signature       *)
(* compare and that size the digest buffers.  One action per public call; a Signature segment is        *)
(* accepted only if it exists, carries a signature of non-zero length and a non-zero SKI.               *)
(* Beyond the 20 listed properties (growth plan, section 10 of DESIGN.md): bound to the code by          *)
(* BgpsecSegTrace.tla as extra conformance in C12's evidence.                                            *)
EXTENDS Naturals, Sequences
CONSTANTS Ids,        \* identities of segments (ASN for path segments, first signature byte for signature segments)
          MaxLen      \* bound for model checking only
VARIABLES path, sigs, plen, slen, res
vars == <<path, sigs, plen, slen, res>>
R(k, v) == [k |-> k, v |-> v]
SigKinds == {"ok", "nullseg", "emptyski", "zerolen"}
Init == path = <<>> /\ sigs = <<>> /\ plen = 0 /\ slen = 0 /\ res = R("init", 0)
PrependPath(x) == /\ path' = <<x>> \o path /\ plen' = plen + 1 /\ res' = R("void", 0) /\ UNCHANGED <<sigs, slen>>
AppendPath(x)  == /\ path' = Append(path, x) /\ plen' = plen + 1 /\ res' = R("void", 0) /\ UNCHANGED <<sigs, slen>>
PopPath == /\ IF path = <<>> THEN res' = R("null", 0) /\ UNCHANGED <<path, plen>>
              ELSE res' = R("seg", Head(path)) /\ path' = Tail(path) /\ plen' = plen - 1
           /\ UNCHANGED <<sigs, slen>>
AddSig(x, kind, front) ==
  /\ IF kind = "ok" THEN /\ sigs' = IF front THEN <<x>> \o sigs ELSE Append(sigs, x)
                         /\ slen' = slen + 1 /\ res' = R("success", 0)
     ELSE res' = R("error", 0) /\ UNCHANGED <<sigs, slen>>
  /\ UNCHANGED <<path, plen>>
PopSig == /\ IF sigs = <<>> THEN res' = R("null", 0) /\ UNCHANGED <<sigs, slen>>
             ELSE res' = R("seg", Head(sigs)) /\ sigs' = Tail(sigs) /\ slen' = slen - 1
          /\ UNCHANGED <<path, plen>>
Next == \/ \E x \in Ids : PrependPath(x) \/ AppendPath(x)
        \/ PopPath \/ PopSig
        \/ \E x \in Ids, k \in SigKinds, f \in BOOLEAN : AddSig(x, k, f)
Spec == Init /\ [][Next]_vars
Bounded == Len(path) <= MaxLen /\ Len(sigs) <= MaxLen
(* the counters are the lengths: what validate_as_path's "path_len # sigs_len" test and the digest sizing rely on *)
CountersExact == plen = Len(path) /\ slen = Len(sigs)
(* a pop undoes a prepend; a rejected Signature segment changes nothing *)
PopUndoesPrepend == [][\A x \in Ids : (PrependPath(x) => Head(path') = x /\ Tail(path') = path)]_vars
RejectChangesNothing == [][(res'.k = "error") => UNCHANGED <<path, sigs, plen, slen>>]_vars
=============================================================================
