SPECIFICATION TraceSpec
CONSTANTS
  Ids = {}
  MaxLen = 0
INVARIANTS OK_EXT CountersExact
POSTCONDITION TraceAccepted
