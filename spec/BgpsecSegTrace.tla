---------------------------- MODULE BgpsecSegTrace ----------------------------
(* Trace validation of the real list helpers (harness/bgpsecseg_harness.c) against BgpsecSeg: every line  *)
(* is one public call with its argument, its result and the whole object afterwards (both lists walked   *)
(* through the next pointers, both counters); the model takes the action of that name and the projected  *)
(* state must coincide.  "new" starts a fresh object.                                                    *)
EXTENDS BgpsecSeg, Json, IOUtils, TLC
JTrace == ndJsonDeserialize(IOEnv.TRACE)
VARIABLES l, bad
tvars == <<vars, l, bad>>
Ev == JTrace[l]
Obs(e) == /\ e.path = path' /\ e.sigs = sigs' /\ e.plen = plen' /\ e.slen = slen'
          /\ e.res = res'
TraceInit == Init /\ l = 1 /\ bad = {}
Step(e) ==
  CASE e.op = "new"  -> path' = <<>> /\ sigs' = <<>> /\ plen' = 0 /\ slen' = 0 /\ res' = R("init", 0)
    [] e.op = "pp"   -> PrependPath(e.x)
    [] e.op = "ap"   -> AppendPath(e.x)
    [] e.op = "popp" -> PopPath
    [] e.op = "ps"   -> AddSig(e.x, e.kind, TRUE)
    [] e.op = "as"   -> AddSig(e.x, e.kind, FALSE)
    [] e.op = "pops" -> PopSig
    [] OTHER -> FALSE
TraceNext == /\ l <= Len(JTrace) /\ l' = l + 1 /\ Step(Ev)
             /\ bad' = IF Ev.op = "new" \/ Obs(Ev) THEN {} ELSE {"EXT"}
TraceSpec == TraceInit /\ [][TraceNext]_tvars
OK_EXT == bad = {}
TraceAccepted == TLCGet("stats").diameter - 1 = Len(JTrace)
=============================================================================
