SPECIFICATION Spec
CONSTANTS
  Ids = {1, 2, 3, 4}
  MaxLen = 5
CONSTRAINT Bounded
INVARIANTS CountersExact
PROPERTIES PopUndoesPrepend RejectChangesNothing
