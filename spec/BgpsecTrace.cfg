SPECIFICATION TraceSpec
CONSTANTS
  KF = {}
INVARIANTS OK_C11 OK_C12
POSTCONDITION TraceAccepted
