---------------------------- MODULE BgpsecTrace ----------------------------
(* Judges every line logged by harness/bgpsec_harness.c against Bgpsec.tla:                       *)
(*  val : [case, rc]             the library's verdict must be in Expected(case)                  *)
(*  gen : [err, rc, der, indep]  rtr_bgpsec_generate_signature: return code per GenExpected, and  *)
(*        on success a well-formed DER ECDSA signature accepted by the independent RFC 8205       *)
(*        digest + ECDSA_verify under the matching public key                                     *)
(*  chain : [rc]                 a path built hop by hop from generated signatures is VALID       *)
EXTENDS Bgpsec, Integers, IOUtils
CONSTANT KF      \* admitted known findings
JTrace == ndJsonDeserialize(IOEnv.TRACE)
VARIABLES l, bad, kf
Norm(c) == [hops |-> c.hops, kv |-> c.kv, corrupt |-> c.corrupt, argerr |-> c.argerr]
(* known finding F14: the key lookup ignores the AS of the Secure_Path segment, so a key that is registered *)
(* under another AS only is used; everything else about the case must be in order                        *)
IsF14(e) == /\ e.e = "val" /\ "F14" \in KF /\ e.rc = RC.VALID
            /\ e.c.argerr = "none" /\ e.c.corrupt.f = "none"
            /\ \A i \in 1..e.c.hops : e.c.kv[i] \in {"right", "two", "garbagefirst", "otheras"}
            /\ \E i \in 1..e.c.hops : e.c.kv[i] = "otheras"
OKLine(e) ==
  CASE e.e = "val" -> e.rc \in Expected(Norm(e.c)) \/ IsF14(e)
    [] e.e = "gen" -> /\ e.rc \in GenExpected(e)
                      /\ (e.rc = 0 => (e.der = 1 /\ e.indep = 1 /\ e.siglen > 0))
    [] e.e = "chain" -> e.rc = 1
    [] OTHER -> FALSE
TraceInit == l = 1 /\ bad = {} /\ kf = {}
TraceNext == /\ l <= Len(JTrace) /\ l' = l + 1
             /\ bad' = IF OKLine(JTrace[l]) THEN {} ELSE {IF JTrace[l].e = "val" THEN "C11" ELSE "C12"}
             /\ kf' = IF IsF14(JTrace[l]) THEN kf \cup {"C11:key-of-another-as-accepted"} ELSE kf
TraceSpec == TraceInit /\ [][TraceNext]_<<l, bad, kf>>
KfReport == (l = Len(JTrace) + 1 /\ kf # {}) => PrintT(<<"KF-USED", kf>>)
OK_C11 == "C11" \notin bad
OK_C12 == "C12" \notin bad
TraceAccepted == TLCGet("stats").diameter - 1 = Len(JTrace)
=============================================================================
