SPECIFICATION TraceSpec
INVARIANTS OK_C16 OK_C06
POSTCONDITION TraceAccepted
VIEW TView
