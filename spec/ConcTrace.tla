---------------------------- MODULE ConcTrace ----------------------------
(* Trace validation for concurrent use of the tables (C16, C06).                              *)
(* rw traces: the writer's operations (in program order) define the versions V[0], V[1], ...  *)
(* of both tables by the contracts PfxTable / SpkiTable; a read that saw the writer's         *)
(* operation counter at c0 (call) and c1 (return) must return the answer for some version     *)
(* between floor(c0/2) and ceil(c1/2) - sound for every schedule.                             *)
(* reload traces: generation g of the cache's data is known by construction (see              *)
(* harness/conc_harness.c build_stream); a read that started when generation g0 was complete   *)
(* and returned after the load of g1 had begun must see exactly the data of one generation    *)
(* in g0..g1 (never an empty or mixed table), and (per table) a read that starts after        *)
(* another one returned may not see an older generation than that one did.                    *)
(* The check driver sorts the trace: universe, writer operations, then reads by return time.  *)
EXTENDS Integers, Sequences, FiniteSets, TLC, Json, IOUtils, Rfc6811
JTrace == ndJsonDeserialize(IOEnv.TRACE)
VARIABLES l, U, K, PV, KV, cur, gens, firstRetP, firstRetK, bad
tvars == <<l, U, K, PV, KV, cur, gens, firstRetP, firstRetK, bad>>
Ev == JTrace[l]
Last(s) == s[Len(s)]
Lo(c) == c \div 2
Hi(c) == (c + 1) \div 2
Recs(S) == {U[i] : i \in S}

(* ---- rw mode *)
ValOK(e) == \E m \in Lo(e.c0)..Hi(e.c1) :
              m + 1 <= Len(PV) /\ e.res = Validity(Recs(PV[m + 1]), [f |-> U[e.i].f, w |-> U[e.i].w, l |-> e.len], U[e.i].a)
GetOK(e) == \E m \in Lo(e.c0)..Hi(e.c1) :
              m + 1 <= Len(KV) /\ {e.ks[j] : j \in 1..Len(e.ks)} = {u \in KV[m + 1] : K[u].a = K[e.k].a /\ K[u].k = K[e.k].k}
                               /\ e.n = Len(e.ks)
(* an enumeration is one for_each call of one address family *)
EnumOK(e) == \E m \in Lo(e.c0)..Hi(e.c1) : m + 1 <= Len(PV) /\ {e.idx[j] : j \in 1..Len(e.idx)} = {i \in PV[m + 1] : U[i].f = e.f}

(* ---- reload mode: the data of generation g as far as the probes see it *)
Even(g) == g % 2 = 0
PfxAnswer(g, p, as) == CASE p = 1 -> "valid"
                         [] p = 2 -> (IF Even(g) THEN "valid" ELSE "notfound")
                         [] p = 3 -> (IF as = 65100 + g THEN "valid" ELSE "invalid")
                         [] p = 4 -> (IF Even(g) THEN "valid" ELSE "invalid")
                         [] p = 7 -> "valid"      \* the other socket's record: untouched by every reload
KeyAnswer(g, p) == IF p = 8 THEN [n |-> 1, tag |-> 34]   \* the other socket's key
                   ELSE IF ~gens[g + 1].keys THEN [n |-> 0, tag |-> -1]
                   ELSE IF p = 5 THEN [n |-> 1, tag |-> 1] ELSE [n |-> 1, tag |-> 100 + g]
(* a failed reload leaves the previous generation's data in place *)
Eff(g) == gens[g + 1].eff
Cands(e) == {g \in e.g0..e.g1 : g + 1 <= Len(gens) /\
               IF e.e = "pval" THEN e.res = PfxAnswer(Eff(g), e.p, e.as)
               ELSE (e.n = KeyAnswer(Eff(g), e.p).n /\ (e.n > 0 => e.tag = KeyAnswer(Eff(g), e.p).tag))}
MaxS(S) == CHOOSE x \in S : \A y \in S : y <= x
MinS(S) == CHOOSE x \in S : \A y \in S : x <= y
OrderOK(e, fr, cand) == \A g \in DOMAIN fr : (fr[g] < e.q0) => MaxS({Eff(x) : x \in cand}) >= g
Upd(fr, e, cand) == LET mn == MinS({Eff(x) : x \in cand}) IN
                    [g \in 0..20 |-> IF g <= mn /\ (g \notin DOMAIN fr \/ e.q1 < fr[g]) THEN e.q1
                                     ELSE IF g \in DOMAIN fr THEN fr[g] ELSE 1000000000]

Step ==
  /\ l <= Len(JTrace) /\ l' = l + 1
  /\ CASE Ev.e = "upfx" -> /\ U' = [i \in DOMAIN U \cup {Ev.i} |-> IF i = Ev.i THEN Ev.r ELSE U[i]]
                           /\ UNCHANGED <<K, PV, KV, cur, gens, firstRetP, firstRetK>> /\ bad' = {}
       [] Ev.e = "ukey" -> /\ K' = [i \in DOMAIN K \cup {Ev.i} |-> IF i = Ev.i THEN [a |-> Ev.a, k |-> Ev.k, s |-> Ev.s] ELSE K[i]]
                           /\ UNCHANGED <<U, PV, KV, cur, gens, firstRetP, firstRetK>> /\ bad' = {}
       [] Ev.e = "wpfx" -> /\ LET P == Last(PV)
                                  N == IF Ev.add THEN P \cup {Ev.i} ELSE P \ {Ev.i}
                              IN /\ PV' = Append(PV, N) /\ KV' = Append(KV, Last(KV))
                                 /\ bad' = IF Ev.ok = (IF Ev.add THEN Ev.i \notin P ELSE Ev.i \in P) THEN {} ELSE {"C16"}
                           /\ UNCHANGED <<U, K, cur, gens, firstRetP, firstRetK>>
       [] Ev.e = "wkey" -> /\ LET P == Last(KV)
                                  N == IF Ev.add THEN P \cup {Ev.k} ELSE P \ {Ev.k}
                              IN /\ KV' = Append(KV, N) /\ PV' = Append(PV, Last(PV))
                                 /\ bad' = IF Ev.ok = (IF Ev.add THEN Ev.k \notin P ELSE Ev.k \in P) THEN {} ELSE {"C16"}
                           /\ UNCHANGED <<U, K, cur, gens, firstRetP, firstRetK>>
       [] Ev.e = "wsrc" -> /\ PV' = Append(PV, {i \in Last(PV) : U[i].s # Ev.s}) /\ KV' = Append(KV, Last(KV)) /\ bad' = {}      \* removal by source: one atomic step
                           /\ UNCHANGED <<U, K, cur, gens, firstRetP, firstRetK>>
       [] Ev.e = "wsrck" -> /\ KV' = Append(KV, {k \in Last(KV) : K[k].s # Ev.s}) /\ PV' = Append(PV, Last(PV)) /\ bad' = {}
                            /\ UNCHANGED <<U, K, cur, gens, firstRetP, firstRetK>>
       [] Ev.e = "rval" -> bad' = (IF ValOK(Ev) THEN {} ELSE {"C16"}) /\ UNCHANGED <<U, K, PV, KV, cur, gens, firstRetP, firstRetK>>
       [] Ev.e = "rget" -> bad' = (IF GetOK(Ev) THEN {} ELSE {"C16"}) /\ UNCHANGED <<U, K, PV, KV, cur, gens, firstRetP, firstRetK>>
       [] Ev.e = "renum" -> bad' = (IF EnumOK(Ev) THEN {} ELSE {"C16"}) /\ UNCHANGED <<U, K, PV, KV, cur, gens, firstRetP, firstRetK>>
       [] Ev.e \in {"load", "reload"} ->
            /\ gens' = Append(gens, [keys |-> Ev.keys, eff |-> IF Ev.rc = 0 THEN Ev.gen ELSE (IF Len(gens) = 0 THEN 0 ELSE Last(gens).eff)])
            /\ bad' = (IF Ev.rc = 0 THEN {} ELSE {"C06"}) /\ UNCHANGED <<U, K, PV, KV, cur, firstRetP, firstRetK>>
       [] Ev.e \in {"pval", "pkey"} ->
            LET cand == Cands(Ev)
                fr == IF Ev.e = "pval" THEN firstRetP ELSE firstRetK
            IN IF cand = {} THEN bad' = {"C06"} /\ UNCHANGED <<U, K, PV, KV, cur, gens, firstRetP, firstRetK>>
               ELSE /\ bad' = (IF OrderOK(Ev, fr, cand) THEN {} ELSE {"C06"})
                    /\ IF Ev.e = "pval" THEN firstRetP' = Upd(fr, Ev, cand) /\ UNCHANGED firstRetK
                       ELSE firstRetK' = Upd(fr, Ev, cand) /\ UNCHANGED firstRetP
                    /\ UNCHANGED <<U, K, PV, KV, cur, gens>>
       [] Ev.e = "end" -> bad' = {} /\ UNCHANGED <<U, K, PV, KV, cur, gens, firstRetP, firstRetK>>
       [] OTHER -> bad' = {"C16", "C06"} /\ UNCHANGED <<U, K, PV, KV, cur, gens, firstRetP, firstRetK>>
TraceInit == /\ l = 1 /\ U = <<>> /\ K = <<>> /\ PV = <<{}>> /\ KV = <<{}>> /\ cur = 0 /\ gens = <<>>
             /\ firstRetP = <<>> /\ firstRetK = <<>> /\ bad = {}
TraceSpec == TraceInit /\ [][Step]_tvars
(* the position in the trace identifies the state: the version lists need not be fingerprinted at every step *)
TView == <<l, bad>>
OK_C16 == "C16" \notin bad
OK_C06 == "C06" \notin bad
TraceAccepted == TLCGet("stats").diameter - 1 = Len(JTrace)
=============================================================================
