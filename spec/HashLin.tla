------------------------------- MODULE HashLin -------------------------------
(* The linear-hashing table behind the router-key table (third-party/tommyds/tommyhashlin.c) *)
(* modelled step for step: bucket array addressed through low_max / split, incremental       *)
(* growth (one new segment, buckets split in place, pace 2*count) and incremental shrinking   *)
(* (buckets merged backwards, pace 8*count), either of which can be reversed half-way.        *)
(* A bucket is [k |-> "L", l |-> sequence of elements] (list order is tommy's: insert at tail, split keeps     *)
(* order, merge appends the high bucket to the low one); a position whose memory is not       *)
(* allocated has k = "U", freshly malloc'ed memory k = "G" (garbage): touching either, or     *)
(* not finding an element in the bucket its hash selects, sets err.                           *)
(* The router-key table relies on exactly this: an element is always found in the bucket     *)
(* that tommy_hashlin_bucket_ref computes for its hash, and foreach visits each element once. *)
EXTENDS Naturals, Sequences, FiniteSets, TLC

CONSTANTS BIT0,      \* TOMMY_HASHLIN_BIT: the table starts with 2^BIT0 buckets and never shrinks below
          MaxBit,    \* positions 0..2^MaxBit-1 exist in the model
          N,         \* elements 1..N
          HSeqs,     \* set of hash assignments (sequences of N naturals) tried
          Discipline \* "free": any absent element may be inserted, any present one removed
                     \* "interval": the present elements are an interval of 1..N that grows and shrinks at both ends
VARIABLES H, bit, lowmax, split, st, count, bkt, err, present, starved     \* starved: a needed segment could not be allocated at some point
vars == <<H, bit, lowmax, split, st, count, bkt, err, present, starved>>

Pow2(n) == IF n = 0 THEN 1 ELSE 2 ^ n
Positions == 0..(Pow2(MaxBit) - 1)
L(q) == [k |-> "L", l |-> q]
U == [k |-> "U", l |-> <<>>]
G == [k |-> "G", l |-> <<>>]
IsList(x) == x.k = "L"
Max(S) == CHOOSE x \in S : \A y \in S : y <= x
Min(S) == CHOOSE x \in S : \A y \in S : x <= y

S0 == [bit |-> BIT0, lowmax |-> Pow2(BIT0), split |-> 0, st |-> "stable", count |-> 0,
       bkt |-> [p \in Positions |-> IF p < Pow2(BIT0) THEN L(<<>>) ELSE U], err |-> FALSE]
Cur == [bit |-> bit, lowmax |-> lowmax, split |-> split, st |-> st, count |-> count, bkt |-> bkt, err |-> err]

(* tommy_hashlin_bucket_ref *)
Ref(s, h) == LET pos == h % s.lowmax IN IF pos < s.split THEN h % Pow2(s.bit) ELSE pos
Stable(s) == [s EXCEPT !.st = "stable", !.lowmax = Pow2(s.bit), !.split = 0]

(* the split loop of hashlin_grow_step *)
RECURSIVE GrowLoop(_, _)
GrowLoop(s, hf) ==
  IF ~(s.split + s.lowmax < 2 * s.count) THEN s
  ELSE LET lo == s.split
           hi == s.split + s.lowmax
           old == s.bkt[lo]
       IN IF ~IsList(old) \/ s.bkt[hi] = U THEN [s EXCEPT !.err = TRUE]
          ELSE LET keep == SelectSeq(old.l, LAMBDA e : (hf[e] \div s.lowmax) % 2 = 0)
                   move == SelectSeq(old.l, LAMBDA e : (hf[e] \div s.lowmax) % 2 = 1)
                   s1 == [s EXCEPT !.bkt = [@ EXCEPT ![lo] = L(keep), ![hi] = L(move)], !.split = s.split + 1]
               IN IF s1.split = s1.lowmax THEN Stable(s1) ELSE GrowLoop(s1, hf)

(* hashlin_grow_step; mem = FALSE: the allocation of the new segment fails (the table keeps its size) *)
GrowStep(s, mem, hf) ==
  LET start == s.st # "grow" /\ s.count > Pow2(s.bit) \div 2
      s1 == IF ~start THEN s
            ELSE IF s.st = "stable"
                 THEN IF ~mem \/ s.bit >= MaxBit THEN s
                      ELSE [s EXCEPT !.lowmax = Pow2(s.bit), !.bit = s.bit + 1, !.split = 0, !.st = "grow",
                                     !.bkt = [p \in Positions |-> IF p >= Pow2(s.bit) /\ p < Pow2(s.bit + 1) THEN G ELSE s.bkt[p]]]
                 ELSE [s EXCEPT !.st = "grow"]          \* a shrink in progress continues backwards
  IN IF s1.st = "grow" THEN GrowLoop(s1, hf) ELSE s1

RECURSIVE ShrinkLoop(_)
ShrinkLoop(s) ==
  IF ~(s.split + s.lowmax > 8 * s.count) THEN s
  ELSE LET sp == s.split - 1
           lo == sp
           hi == sp + s.lowmax
       IN IF s.split = 0 \/ ~IsList(s.bkt[lo]) \/ ~IsList(s.bkt[hi]) THEN [s EXCEPT !.err = TRUE]
          ELSE LET s1 == [s EXCEPT !.split = sp, !.bkt = [@ EXCEPT ![lo] = L(s.bkt[lo].l \o s.bkt[hi].l)]]   \* tommy_list_concat; the high head is left dangling
               IN IF sp = 0
                  THEN Stable([s1 EXCEPT !.bit = s.bit - 1,
                                         !.bkt = [p \in Positions |-> IF p >= Pow2(s.bit - 1) /\ p < Pow2(s.bit) THEN U ELSE s1.bkt[p]]])
                  ELSE ShrinkLoop(s1)

ShrinkStep(s) ==
  LET start == s.st # "shrink" /\ s.count < Pow2(s.bit) \div 8 /\ s.bit > BIT0
      s1 == IF ~start THEN s
            ELSE IF s.st = "stable"
                 THEN [s EXCEPT !.lowmax = Pow2(s.bit) \div 2, !.split = Pow2(s.bit) \div 2, !.st = "shrink"]
                 ELSE [s EXCEPT !.st = "shrink"]        \* a growth in progress continues backwards
  IN IF s1.st = "shrink" THEN ShrinkLoop(s1) ELSE s1

Set(s) == bit' = s.bit /\ lowmax' = s.lowmax /\ split' = s.split /\ st' = s.st /\ count' = s.count /\ bkt' = s.bkt /\ err' = s.err

InsertOK(e) == IF Discipline = "free" \/ present = {} THEN e \notin present
               ELSE e = Max(present) + 1 \/ e = Min(present) - 1          \* the present elements stay an interval of 1..N
RemoveOK(e) == IF Discipline = "free" THEN e \in present
               ELSE e \in present /\ (e = Max(present) \/ e = Min(present))

Insert(e, mem) ==
  /\ InsertOK(e) /\ ~err
  /\ LET pos == Ref(Cur, H[e])
     IN IF ~IsList(bkt[pos]) THEN Set([Cur EXCEPT !.err = TRUE])
        ELSE Set(GrowStep([Cur EXCEPT !.bkt = [@ EXCEPT ![pos] = L(Append(@.l, e))], !.count = count + 1], mem, H))
  /\ present' = present \cup {e} /\ UNCHANGED H
  /\ starved' = (starved \/ (~mem /\ st = "stable" /\ count + 1 > Pow2(bit) \div 2))
Remove(e) ==
  /\ RemoveOK(e) /\ ~err
  /\ LET pos == Ref(Cur, H[e])
     IN IF ~IsList(bkt[pos]) \/ ~(\E i \in 1..Len(bkt[pos].l) : bkt[pos].l[i] = e) THEN Set([Cur EXCEPT !.err = TRUE])      \* the element is not where its hash says
        ELSE Set(ShrinkStep([Cur EXCEPT !.bkt = [@ EXCEPT ![pos] = L(SelectSeq(@.l, LAMBDA x : x # e))], !.count = count - 1]))
  /\ present' = present \ {e} /\ UNCHANGED <<H, starved>>
InsertA == \E e \in 1..N : Insert(e, TRUE)
InsertNoMemA == \E e \in 1..N : Insert(e, FALSE)
RemoveA == \E e \in 1..N : Remove(e)

Init == /\ H \in HSeqs /\ present = {} /\ starved = FALSE
        /\ bit = S0.bit /\ lowmax = S0.lowmax /\ split = S0.split /\ st = S0.st /\ count = S0.count /\ bkt = S0.bkt /\ err = S0.err
Next == InsertA \/ InsertNoMemA \/ RemoveA
Spec == Init /\ [][Next]_vars

-----------------------------------------------------------------------------
Valid == 0..(lowmax + split - 1)                                     \* the buckets tommy_hashlin_foreach visits
ElemsAt(p) == IF IsList(bkt[p]) THEN {bkt[p].l[i] : i \in 1..Len(bkt[p].l)} ELSE {}
NoErr == ~err
Findable == \A e \in present : IsList(bkt[Ref(Cur, H[e])]) /\ e \in ElemsAt(Ref(Cur, H[e]))
ForeachExact == /\ \A p \in Valid : IsList(bkt[p])
                /\ \A e \in present : Cardinality({p \in Valid : e \in ElemsAt(p)}) = 1
                /\ \A p \in Valid : ElemsAt(p) \subseteq present /\ Len(bkt[p].l) = Cardinality(ElemsAt(p))
                /\ count = Cardinality(present)
Shape == /\ bit >= BIT0 /\ bit <= MaxBit
         /\ st = "stable" => (split = 0 /\ lowmax = Pow2(bit))
         /\ st \in {"grow", "shrink"} => (lowmax = Pow2(bit - 1) /\ split <= lowmax /\ bit > BIT0)
         /\ st = "grow" => split < lowmax
         /\ st = "shrink" => split > 0
         /\ \A p \in Positions : (bkt[p] = U) = (p >= Pow2(bit))           \* exactly the first 2^bit positions are allocated
(* the pace of the incremental resize: a growth is finished before the next one is due, so the load never exceeds 1 *)
Load == (bit < MaxBit /\ ~starved) => count <= lowmax + split
=============================================================================
