SPECIFICATION TraceSpec
CONSTANTS
  BIT0 = 6
  MaxBit = 12
  N = 4095
  HSeqs = {}
  Discipline = "free"
INVARIANTS OK_C10
POSTCONDITION TraceAccepted
