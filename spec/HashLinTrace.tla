---------------------------- MODULE HashLinTrace ----------------------------
(* Trace validation of the REAL tommy_hashlin (harness/hashlin_harness.c) against HashLin:    *)
(* every line is one insert / remove with the element, its hash and the table's shape after   *)
(* the call (bucket_bit, low_max, split, state, count, every valid bucket in list order, the  *)
(* number of elements foreach visited).  The model performs the same operation with HashLin's  *)
(* GrowStep / ShrinkStep and the whole shape must coincide: same resize decisions at the same  *)
(* operation, same bucket for every element, same order inside the buckets.                   *)
EXTENDS HashLin, Json, IOUtils
JTrace == ndJsonDeserialize(IOEnv.TRACE)
VARIABLES l, bad
tvars == <<vars, l, bad>>
Ev == JTrace[l]
ObservedOK(s, e) ==
  /\ e.bit = s.bit /\ e.lowmax = s.lowmax /\ e.split = s.split /\ e.st = s.st /\ e.count = s.count
  /\ Len(e.b) = s.lowmax + s.split
  /\ \A p \in 0..(s.lowmax + s.split - 1) : s.bkt[p].k = "L" /\ e.b[p + 1] = s.bkt[p].l
  /\ e.foreach = s.count
TraceInit == /\ l = 1 /\ bad = {} /\ H = [i \in 1..N |-> 0] /\ present = {} /\ starved = FALSE
             /\ bit = S0.bit /\ lowmax = S0.lowmax /\ split = S0.split /\ st = S0.st /\ count = S0.count /\ bkt = S0.bkt /\ err = S0.err
TraceNext ==
  /\ l <= Len(JTrace) /\ l' = l + 1
  /\ CASE Ev.op = "new" -> /\ H' = [i \in 1..N |-> 0] /\ present' = {} /\ starved' = FALSE /\ Set(S0) /\ bad' = {}
       [] Ev.op = "ins" ->
            LET Hn == [H EXCEPT ![Ev.e] = Ev.h]
                pos == Ref(Cur, Ev.h)
                s1 == [Cur EXCEPT !.bkt = [@ EXCEPT ![pos] = L(Append(@.l, Ev.e))], !.count = count + 1]
            IN /\ H' = Hn /\ present' = present \cup {Ev.e} /\ UNCHANGED starved
               /\ LET s2 == GrowStep(s1, TRUE, Hn) IN Set(s2) /\ bad' = IF ObservedOK(s2, Ev) /\ ~s2.err THEN {} ELSE {"C10"}
       [] Ev.op = "rem" ->
            LET pos == Ref(Cur, Ev.h)
                there == Ev.e \in present /\ \E i \in 1..Len(bkt[pos].l) : bkt[pos].l[i] = Ev.e
            IN IF ~there THEN /\ UNCHANGED vars /\ bad' = IF Ev.res = "notfound" /\ Ev.e \notin present THEN {} ELSE {"C10"}
               ELSE LET s2 == ShrinkStep([Cur EXCEPT !.bkt = [@ EXCEPT ![pos] = L(SelectSeq(@.l, LAMBDA x : x # Ev.e))], !.count = count - 1])
                    IN /\ Set(s2) /\ present' = present \ {Ev.e} /\ UNCHANGED <<H, starved>>
                       /\ bad' = IF Ev.res = "ok" /\ ObservedOK(s2, Ev) /\ ~s2.err THEN {} ELSE {"C10"}
       [] OTHER -> UNCHANGED vars /\ bad' = {"C10"}
TraceSpec == TraceInit /\ [][TraceNext]_tvars
OK_C10 == bad = {}
TraceAccepted == TLCGet("stats").diameter - 1 = Len(JTrace)
=============================================================================
