\* exhaustive: 2 initial buckets, up to 16, 8 elements in any order, three hash assignments (spread, colliding low bits, equal hashes)
SPECIFICATION SpecX
CONSTANTS
  BIT0 = 1
  MaxBit = 4
  N = 8
  HSeqs <- HS_quick
  Discipline = "free"
  D = 0
INVARIANTS NoErr Findable ForeachExact Shape Load
