\* exhaustive: 2 initial buckets, up to 64, 34 elements entering and leaving at both ends of an interval: every grow,
\* half-finished shrink and reversal (a shrink turned into a growth and back) up to 64 buckets
SPECIFICATION SpecXM
CONSTANTS
  BIT0 = 1
  MaxBit = 6
  N = 34
  HSeqs <- HS_resize
  Discipline = "interval"
  D = 0
INVARIANTS NoErr Findable ForeachExact Shape Load
