\* behaviour generation for the real tommy_hashlin (64 initial buckets): sizes swing between 0 and 300 elements
SPECIFICATION SpecH
CONSTANTS
  BIT0 = 6
  MaxBit = 10
  N = 300
  HSeqs <- HS_real
  Discipline = "interval"
  D = 900
INVARIANTS Emit NoErr Findable
