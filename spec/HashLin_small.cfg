\* exhaustive: 2 initial buckets, up to 16, 9 elements in any order, three hash assignments (spread, colliding low bits, equal hashes)
SPECIFICATION SpecX
CONSTANTS
  BIT0 = 1
  MaxBit = 4
  N = 9
  HSeqs <- HS_small
  Discipline = "free"
  D = 0
INVARIANTS NoErr Findable ForeachExact Shape Load
