------------------------------- MODULE IpBits -------------------------------
(* The bit-level helpers of rtrlib/lib/ip*.c that the prefix trie is built on, over addresses given as sequences of    *)
(* 16-bit words (2 for IPv4, 8 for IPv6; TLC integers are 32 bit):                                                     *)
(*   GetBits(w, from, n)   lrtr_ip_addr_get_bits: the address with every bit outside [from, from + n) cleared          *)
(*   IsZero(w), Equal(a, b)   lrtr_ip_addr_is_zero, lrtr_ip_addr_equal                                                *)
(* IpBitsTrace.tla judges the real functions against these for every (from, n) of sample addresses.                    *)
EXTENDS Naturals, Sequences, Bitwise
RECURSIVE MaskFrom(_, _, _, _)
(* the 16-bit mask of word k (1-based) that keeps the bits whose global index lies in [from, from + n) *)
MaskFrom(k, from, n, j) ==
  IF j = 16 THEN 0
  ELSE LET g == 16 * (k - 1) + j
       IN (IF g >= from /\ g < from + n THEN 2 ^ (15 - j) ELSE 0) + MaskFrom(k, from, n, j + 1)
GetBits(w, from, n) == [k \in 1..Len(w) |-> w[k] & MaskFrom(k, from, n, 0)]
IsZero(w) == \A k \in 1..Len(w) : w[k] = 0
Equal(a, b) == Len(a) = Len(b) /\ \A k \in 1..Len(a) : a[k] = b[k]
=============================================================================
