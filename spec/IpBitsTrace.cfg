SPECIFICATION TraceSpec
INVARIANTS OK_EXT
POSTCONDITION TraceAccepted
