---------------------------- MODULE IpBitsTrace ----------------------------
(* Judges harness/ipbits_harness.c: every line is one call of a bit helper with its result.  Conformance beyond the   *)
(* listed properties (the helpers underlie C01/C02): reported in the evidence of C01, never a violation.               *)
EXTENDS IpBits, Json, IOUtils, TLC
JTrace == ndJsonDeserialize(IOEnv.TRACE)
VARIABLES l, bad
Ev == JTrace[l]
OkLine(e) == CASE e.e = "getbits" -> e.res = GetBits(e.w, e.from, e.n)
               [] e.e = "iszero"  -> e.res = IsZero(e.w)
               [] e.e = "equal"   -> e.res = Equal(e.a, e.b)
               [] OTHER -> FALSE
TraceInit == l = 1 /\ bad = {}
TraceNext == l <= Len(JTrace) /\ l' = l + 1 /\ bad' = IF OkLine(Ev) THEN {} ELSE {"EXT"}
TraceSpec == TraceInit /\ [][TraceNext]_<<l, bad>>
OK_EXT == bad = {}
TraceAccepted == TLCGet("stats").diameter - 1 = Len(JTrace)
=============================================================================
