
