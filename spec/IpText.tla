---------------------------- MODULE IpText ----------------------------
(* C19: generator of the RFC 4291 text forms of IPv6 addresses.  For every zero/non-zero   *)
(* pattern of the eight 16-bit groups (256 patterns, non-zero groups taken from a small    *)
(* alphabet by position) it enumerates every admissible rendering: no compression, or "::" *)
(* in place of ANY run of one or more zero groups (every position and length), with three  *)
(* spellings of each group (shortest, leading zeros, upper/mixed case), plus the forms     *)
(* with an embedded dotted-quad tail.  Each case is [text, words]: the text and the        *)
(* address it denotes.  The cases are printed as JSON for harness/ip_harness.c.            *)
EXTENDS Naturals, Sequences, FiniteSets, TLC, Json

Alphabet == << [v |-> 1,     r |-> <<"1", "0001", "01">>],
               [v |-> 255,   r |-> <<"ff", "00ff", "FF">>],
               [v |-> 65535, r |-> <<"ffff", "ffff", "FFFF">>],
               [v |-> 43981, r |-> <<"abcd", "abcd", "aBcD">>],
               [v |-> 4660,  r |-> <<"1234", "1234", "1234">>] >>
Zero == [v |-> 0, r |-> <<"0", "0000", "00">>]
Patterns == [1..8 -> BOOLEAN]
W(p, i) == IF p[i] THEN Alphabet[((i - 1) % 5) + 1] ELSE Zero
Words(p) == [i \in 1..8 |-> W(p, i).v]

RECURSIVE Join(_, _, _, _, _)      \* groups a..b of pattern p in spelling k, separated by ":"
Join(p, k, a, b, acc) == IF a > b THEN acc
                         ELSE Join(p, k, a + 1, b, IF acc = "" THEN W(p, a).r[k] ELSE acc \o ":" \o W(p, a).r[k])
Plain(p, k) == Join(p, k, 1, 8, "")
ZeroRuns(p) == {<<s, n>> \in (1..8) \X (1..8) : s + n - 1 <= 8 /\ \A i \in s..(s + n - 1) : ~p[i]}
Compressed(p, k, run) == Join(p, k, 1, run[1] - 1, "") \o "::" \o Join(p, k, run[1] + run[2], 8, "")
Cases == UNION {
           {[text |-> Plain(p, k), words |-> Words(p)] : k \in 1..3}
           \cup {[text |-> Compressed(p, k, run), words |-> Words(p)] : k \in 1..3, run \in ZeroRuns(p)}
         : p \in Patterns}
(* embedded IPv4 forms (RFC 4291 section 2.2 form 3) *)
V4Cases == { [text |-> "::1.2.3.4", words |-> <<0, 0, 0, 0, 0, 0, 258, 772>>],
             [text |-> "::ffff:1.2.3.4", words |-> <<0, 0, 0, 0, 0, 65535, 258, 772>>],
             [text |-> "::FFFF:255.255.255.255", words |-> <<0, 0, 0, 0, 0, 65535, 65535, 65535>>],
             [text |-> "0:0:0:0:0:ffff:192.0.2.33", words |-> <<0, 0, 0, 0, 0, 65535, 49152, 545>>],
             [text |-> "1:2:3:4:5:6:10.0.0.1", words |-> <<1, 2, 3, 4, 5, 6, 2560, 1>>],
             [text |-> "64:ff9b::192.0.2.33", words |-> <<100, 65435, 0, 0, 0, 0, 49152, 545>>],
             [text |-> "1::10.11.12.13", words |-> <<1, 0, 0, 0, 0, 0, 2571, 3085>>] }
(* six hex groups (every zero pattern, every "::" placement) followed by a dotted quad *)
P6 == [1..6 -> BOOLEAN]
W6(p, i) == IF p[i] THEN Alphabet[((i - 1) % 5) + 1] ELSE Zero
RECURSIVE Join6(_, _, _, _)
Join6(p, a, b, acc) == IF a > b THEN acc ELSE Join6(p, a + 1, b, IF acc = "" THEN W6(p, a).r[1] ELSE acc \o ":" \o W6(p, a).r[1])
Words6(p) == [i \in 1..8 |-> IF i <= 6 THEN W6(p, i).v ELSE IF i = 7 THEN 49320 ELSE 513]      \* 192.168.2.1
Runs6(p) == {<<s, n>> \in (1..6) \X (1..6) : s + n - 1 <= 6 /\ \A i \in s..(s + n - 1) : ~p[i]}
Tail6(p, run) == LET after == Join6(p, run[1] + run[2], 6, "") IN
                 Join6(p, 1, run[1] - 1, "") \o "::" \o (IF after = "" THEN "" ELSE after \o ":") \o "192.168.2.1"
V4Gen == UNION { {[text |-> Join6(p, 1, 6, "") \o ":192.168.2.1", words |-> Words6(p)]}
                 \cup {[text |-> Tail6(p, run), words |-> Words6(p)] : run \in Runs6(p)} : p \in P6 }
AllCases == Cases \cup V4Cases \cup V4Gen
ASSUME PrintT(<<"CASES", ToJson(AllCases)>>)
ASSUME PrintT(<<"NCASES", Cardinality(AllCases)>>)
=============================================================================
