SPECIFICATION TraceSpec
INVARIANTS OK_C19
POSTCONDITION TraceAccepted
