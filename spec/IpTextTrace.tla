---------------------------- MODULE IpTextTrace ----------------------------
(* C19: every line is one call of the address text functions with the platform parser's  *)
(* verdict next to it.  parse: [text, rc1, rc2, w1, w2 (two runs with differently filled  *)
(* stack), pton, pw, exp (the address the generator IpText.tla says the text denotes)];   *)
(* fmt: [w, text, overrun, unterminated, back, bw, pton, pw].                              *)
EXTENDS Naturals, Integers, Sequences, TLC, Json, IOUtils
JTrace == ndJsonDeserialize(IOEnv.TRACE)
VARIABLES l, bad
Has(e, f) == f \in DOMAIN e
ParseOK(e) == /\ e.rc1 = e.rc2 /\ (e.rc1 = 1 => e.w1 = e.w2)                 \* depends on the text only
              /\ e.uninit = 0                                                  \* (MemorySanitizer build: no never-written byte in an accepted result)
              /\ (e.pton = 1 => (e.rc1 = 1 /\ e.w1 = e.pw))                    \* agrees with inet_pton on what inet_pton accepts
              /\ (Has(e, "exp") => (e.rc1 = 1 /\ e.w1 = e.exp /\ e.pton = 1 /\ e.pw = e.exp))   \* denotes what RFC 4291 says
FmtOK(e) == /\ e.overrun = -1 /\ e.unterminated = -1                          \* never writes beyond the length it was told
            /\ e.back = 1 /\ e.bw = e.w                                        \* round trip through the library
            /\ e.pton = 1 /\ e.pw = e.w                                        \* and through the platform parser
OKLine(e) == IF e.e = "parse" THEN ParseOK(e) ELSE IF e.e = "fmt" THEN FmtOK(e) ELSE FALSE
TraceInit == l = 1 /\ bad = {}
TraceNext == /\ l <= Len(JTrace) /\ l' = l + 1
             /\ bad' = IF OKLine(JTrace[l]) THEN {} ELSE {"C19"}
TraceSpec == TraceInit /\ [][TraceNext]_<<l, bad>>
OK_C19 == bad = {}
TraceAccepted == TLCGet("stats").diameter - 1 = Len(JTrace)
=============================================================================
