------------------------------ MODULE MCHashLin ------------------------------
(* Model-checking instances of HashLin: hash assignments (spread, colliding low bits, equal   *)
(* hashes) and, for behaviour generation, a history of operations with the shape each must    *)
(* leave (replayed through the real tommy_hashlin by harness/hashlin_harness.c).              *)
EXTENDS HashLin, Json
HS_small == {<<0, 1, 2, 3, 4, 5, 6, 7, 8>>, <<0, 4, 8, 12, 16, 20, 2, 6, 1>>, <<5, 5, 13, 13, 21, 1, 9, 3, 7>>}
HS_quick == {<<0, 1, 2, 3, 4, 5, 6, 7>>, <<0, 4, 8, 12, 16, 20, 2, 6>>, <<5, 5, 13, 13, 21, 1, 9, 3>>}
HS_resize == {[i \in 1..34 |-> i - 1],
              <<0,32,16,48,8,40,24,56,4,36,20,52,12,44,28,60,2,34,18,50,10,42,26,58,6,38,22,54,14,46,30,62,1,33>>}
(* behaviour generation for the real table (64 initial buckets): 700 elements, hashes with many equal low bits *)
HS_real == {[i \in 1..700 |-> (i * 2654435) % 1048576], [i \in 1..700 |-> ((i % 7) * 64 + (i \div 7) * 4096) % 1048576], [i \in 1..700 |-> i * 64]}

VARIABLES hist, goal
hvars == <<vars, hist, goal>>
InitH == Init /\ hist = <<>> /\ goal \in 0..(N - 1)
(* the walk heads for a randomly chosen size, then picks the next one: sizes swing across several resize thresholds *)
StepH == \/ /\ count < goal /\ InsertA /\ UNCHANGED goal
         \/ /\ count > goal /\ RemoveA /\ UNCHANGED goal
         \/ /\ count = goal /\ goal' \in 0..(N - 1) /\ UNCHANGED vars
NextH == StepH /\ hist' = IF count' = count THEN hist
                          ELSE Append(hist, [op |-> IF count' > count THEN "ins" ELSE "rem",
                                             e |-> CHOOSE x \in (present' \cup present) \ (present' \cap present) : TRUE,
                                             h |-> H[CHOOSE x \in (present' \cup present) \ (present' \cap present) : TRUE],
                                             bit |-> bit', lowmax |-> lowmax', split |-> split', st |-> st', count |-> count',
                                             b |-> [p \in 0..(lowmax' + split' - 1) |-> bkt'[p].l]])
SpecH == InitH /\ [][NextH]_hvars
(* exhaustive runs: the generation variables stay constant *)
InsertX == InsertA /\ UNCHANGED <<hist, goal>>
InsertNoMemX == InsertNoMemA /\ UNCHANGED <<hist, goal>>
RemoveX == RemoveA /\ UNCHANGED <<hist, goal>>
SpecX == Init /\ hist = <<>> /\ goal = 0 /\ [][InsertX \/ InsertNoMemX \/ RemoveX]_hvars
SpecXM == Init /\ hist = <<>> /\ goal = 0 /\ [][InsertX \/ RemoveX]_hvars            \* every allocation succeeds
CONSTANT D
Emit == (Len(hist) = D) => PrintT(<<"BEH", ToJson(hist)>>)
=============================================================================
