\* exhaustive: 6 records (3 prefixes x 2 sources), 2 tables, every operation order
SPECIFICATION SpecX
CONSTANTS
  Rec <- MCRec
  Srcs <- MCSrcs
  NT = 2
  D = 0
INVARIANTS MirrorOK TypeOK
PROPERTIES DiffIsNet ReloadAtomic
