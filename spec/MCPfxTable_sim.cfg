\* behaviour generation (simulation): operation histories incl. the reload protocol, replayed into the real prefix table
SPECIFICATION SpecH
CONSTANTS
  Rec <- MCRec
  Srcs <- MCSrcs
  NT = 2
  D = 30
INVARIANTS Emit MirrorOK
