---------------------------- MODULE MCRtrMgr ----------------------------
(* Model-checking instance of RtrMgr: every sequence of (legal) socket state changes,   *)
(* expiries, group additions and removals over a small configuration.                   *)
EXTENDS RtrMgr, Json
CONSTANTS InitGroups, AddPrefs, D
VARIABLES S, ev, hist
mvars == <<S, ev, hist>>
Legal(a, b) ==
  \/ a = "CONNECTING" /\ b \in {"RESET", "SYNC", "ERR_TRANSPORT", "ERR_FATAL"}
  \/ a = "RESET" /\ b \in {"SYNC", "ERR_TRANSPORT"}
  \/ a = "SYNC" /\ b \in {"ESTABLISHED", "ERR_FATAL", "ERR_TRANSPORT", "ERR_NODATA", "ERR_NOINCR", "FAST_RECONNECT"}
  \/ a = "ESTABLISHED" /\ b \in {"SYNC", "ERR_TRANSPORT", "ERR_FATAL"}
  \/ a = "FAST_RECONNECT" /\ b = "CONNECTING"
  \/ a \in {"ERR_NODATA", "ERR_NOINCR"} /\ b = "RESET"
  \/ a \in {"ERR_FATAL", "ERR_TRANSPORT"} /\ b = "CONNECTING"
Clr(T) == [T EXCEPT !.rep = <<>>]
Init == S = Clr(StartMgr(InitMgr2(InitGroups))) /\ ev = [e |-> "start"] /\ hist = <<>>
ASock == \E g \in S.present : \E s \in Socks(S, g) : \E st \in SockStates :
            /\ S.run[s] /\ Legal(S.sst[s], st)
            /\ S' = SockEvent(Clr(S), s, st) /\ ev' = [e |-> "sock", g |-> s[1], i |-> s[2], st |-> st]
AExpire == \E g \in S.present : \E s \in Socks(S, g) :
            /\ S.run[s] /\ S.sst[s] = "CONNECTING" /\ S.upd[s]
            /\ S' = ExpireSock(Clr(S), s) /\ ev' = [e |-> "expire", g |-> s[1], i |-> s[2]]
AAdd == \E pp \in AddPrefs \ S.present : \E nn \in 1..MaxSock :
            S' = AddGroup(Clr(S), pp, nn) /\ ev' = [e |-> "add", pref |-> pp, n |-> nn]
ARemove == \E pp \in S.present : Cardinality(S.present) > 1 /\ S' = RemoveGroup(Clr(S), pp) /\ ev' = [e |-> "rm", pref |-> pp]
Next == (ASock \/ AExpire \/ AAdd \/ ARemove) /\ UNCHANGED hist
NextH == (ASock \/ AExpire \/ AAdd \/ ARemove) /\ hist' = Append(hist, ev')
Spec == Init /\ [][Next]_mvars
SpecH == Init /\ [][NextH]_mvars
Emit == (Len(hist) = D) => PrintT(<<"BEH", ToJson(hist)>>)

C15_P1 == [][P1_EstOnlyIfSynced(S, S')]_mvars
C15_P2 == [][P2_LessPreferredClosed(S, S')]_mvars
C15_P3 == [][P3_NeverStoppedForWorse(S, S', ev'.e = "rm")]_mvars
C15_P4 == [][(ev'.e = "sock" /\ ev'.st \in ErrStates /\ S'.gst[ev'.g] = "ERROR" /\ S.sst[<<ev'.g, ev'.i>>] # ev'.st) => P4_FailoverStartsBest(S, S', ev'.g)]_mvars
C15_I1 == I_ClosedMeansStopped(S)
C15_I2 == I_AtMostOneEst(S)
G3 == <<[pref |-> 1, n |-> 1], [pref |-> 2, n |-> 1], [pref |-> 3, n |-> 1]>>
G22 == <<[pref |-> 1, n |-> 2], [pref |-> 2, n |-> 2]>>
G23 == <<[pref |-> 2, n |-> 1], [pref |-> 3, n |-> 1]>>
G2 == <<[pref |-> 2, n |-> 1], [pref |-> 3, n |-> 2]>>
=============================================================================
