\* exhaustive: groups {2,3} with one socket each + adding / removing a group with preference 1 or 4 (one socket)
SPECIFICATION Spec
CONSTANTS
  Prefs = {1, 2, 3, 4}
  MaxSock = 1
  InitGroups <- G23
  AddPrefs = {1, 4}
  D = 0
INVARIANTS C15_I2
PROPERTIES C15_P1 C15_P2 C15_P3
