\* exhaustive: 2 groups x 2 sockets
SPECIFICATION Spec
CONSTANTS
  Prefs = {1, 2}
  MaxSock = 2
  InitGroups <- G22
  AddPrefs = {}
  D = 0
INVARIANTS C15_I1 C15_I2
PROPERTIES C15_P1 C15_P2 C15_P3 C15_P4
