\* exhaustive: 3 groups x 1 socket, every sequence of legal socket state changes and expiries
SPECIFICATION Spec
CONSTANTS
  Prefs = {1, 2, 3}
  MaxSock = 1
  InitGroups <- G3
  AddPrefs = {}
  D = 0
INVARIANTS C15_I1 C15_I2
PROPERTIES C15_P1 C15_P2 C15_P3 C15_P4
