SPECIFICATION SpecH
CONSTANTS
  Prefs = {1, 2, 3, 4}
  MaxSock = 2
  InitGroups <- G2
  AddPrefs = {1, 4}
  D = 40
INVARIANTS Emit
