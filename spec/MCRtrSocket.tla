---------------------------- MODULE MCRtrSocket ----------------------------
(* Model-checking instance of RtrSocket: the handlers of RtrSocket.tla driven by an       *)
(* environment (cache, transport, clock, user) that chooses events from small alphabets.  *)
(* The client's own outputs (queries, error reports, sleeps, closes) are the ones the     *)
(* envelope predicts, so what is checked here is the envelope itself: that every          *)
(* behaviour it admits satisfies the protocol properties stated over ghost variables.     *)
(*   sessions {1,2}, serial tokens {"1","2"}, records {4:a, 6:b, k:c}, versions {0,1},    *)
(*   intervals refresh 100 / retry 700 / expire 600 (one failed reconnect cycle expires   *)
(*   the data) or retry 200 (two cycles do not), payload buffers up to MaxBuf PDUs, clock  *)
(*   from T0 = 1000 bounded by MaxNow.                                                     *)
EXTENDS RtrSocket, Json

CONSTANTS MaxBuf, MaxNow, D
VARIABLES c, bad, hist
mvars == <<c, bad, hist>>

L(n) == [s |-> ToString(n), n |-> n]
Raw(tag) == "00112233445566778899aabb" \o tag
Iv0 == [r |-> Mk(100), t |-> Mk(700), e |-> Mk(600)]
Iv1 == [r |-> Mk(100), t |-> Mk(200), e |-> Mk(600)]      \* retry shorter than expire: reconnects while the data is still alive
T0 == 1000                                                  \* the clock starts above 0 (lastOk = 0 means "never synchronised")
CONSTANT RecSet, Modes, IvSet
Recs == RecSet
TypeOfRec(r) == IF Kind(r) = "4" THEN "ipv4" ELSE IF Kind(r) = "6" THEN "ipv6" ELSE "router_key"
NatOf(t) == IF t = "ipv4" THEN 20 ELSE IF t = "ipv6" THEN 32 ELSE 123

FCacheResponse == {[t |-> "cache_response", v |-> v, len |-> L(8), sess |-> s, raw |-> Raw("cr" \o ToString(s) \o ToString(v))] :
                     s \in {1, 2}, v \in {0, 1}}
FPayload == {[t |-> TypeOfRec(r), v |-> v, len |-> L(NatOf(TypeOfRec(r))), sess |-> 0, rec |-> r, flags |-> fl,
              raw |-> Raw("p" \o r \o ToString(fl) \o ToString(v))] : r \in Recs, fl \in {0, 1, 2}, v \in {1}}
FEod == {[t |-> "eod", v |-> 1, len |-> L(24), sess |-> s, sn |-> n, iv |-> Iv0, raw |-> Raw("e" \o ToString(s) \o n)] :
            s \in {1, 2}, n \in {"1", "2"}}
        \cup (IF "bad" \in IvSet THEN {[t |-> "eod", v |-> 1, len |-> L(24), sess |-> 1, sn |-> "2", iv |-> [r |-> Mk(86401), t |-> Mk(7201), e |-> Mk(599)],
               raw |-> Raw("eiv")]} ELSE {})
        \cup (IF "iv1" \in IvSet THEN {[t |-> "eod", v |-> 1, len |-> L(24), sess |-> 1, sn |-> "2", iv |-> Iv1, raw |-> Raw("eq")]} ELSE {})
        \cup {[t |-> "eod", v |-> 0, len |-> L(12), sess |-> s, sn |-> "1", raw |-> Raw("e0" \o ToString(s))] : s \in {1}}
FOther == {[t |-> "cache_reset", v |-> 1, len |-> L(8), sess |-> 0, raw |-> Raw("rs")],
           [t |-> "serial_notify", v |-> 1, len |-> L(12), sess |-> 1, sn |-> "2", raw |-> Raw("sn")],
           [t |-> "serial_query", v |-> 1, len |-> L(12), sess |-> 1, sn |-> "1", raw |-> Raw("sq")],          \* unexpected type
           [t |-> "ipv4", v |-> 1, len |-> L(7), sess |-> 0, rec |-> "4:a", flags |-> 1, raw |-> Raw("short")],   \* malformed lengths
           [t |-> "ipv4", v |-> 1, len |-> L(4000), sess |-> 0, rec |-> "4:a", flags |-> 1, raw |-> Raw("big")],
           [t |-> "ipv4", v |-> 1, len |-> L(21), sess |-> 0, rec |-> "4:a", flags |-> 1, raw |-> Raw("size")],
           [t |-> "unknown", v |-> 1, len |-> L(8), sess |-> 0, raw |-> Raw("unk")],
           [t |-> "cache_response", v |-> 2, len |-> L(8), sess |-> 1, raw |-> Raw("v2")]}                   \* wrong version
          \cup {[t |-> "error", v |-> v, len |-> L(16), sess |-> 0, code |-> k, enclen |-> L(0), txtlen |-> L(0),
                 raw |-> Raw("err" \o ToString(k) \o ToString(v))] : k \in {0, 2, 4}, v \in {0, 1}}
Frames == FCacheResponse \cup FPayload \cup FEod \cup FOther

Ev(name) == [e |-> name, now |-> c.now]
QueryEvent == LET q == ExpectedQuery(c) IN
              IF q.t = "reset_query" THEN [e |-> "send", now |-> c.now, t |-> q.t, v |-> q.v, len |-> 8, sess |-> 0]
              ELSE [e |-> "send", now |-> c.now, t |-> q.t, v |-> q.v, len |-> 12, sess |-> q.sess, sn |-> q.sn]
ReportEvent == [e |-> "send", now |-> c.now, t |-> "error", v |-> c.ver, len |-> 16, code |-> CHOOSE k \in c.owed.codes : TRUE,
                enc |-> Hdr(c.owed.raw), lenok |-> TRUE]

(* the events the environment (or the client itself, for its outputs) can produce in the current state *)
Enabled ==
  CASE c.pc = "dead"      -> {[e |-> "init", now |-> 0, rc |-> "ok", mode |-> m, cfg |-> Iv0, iv |-> Iv0, oth |-> <<"4:o">>] :
                                m \in Modes}
    [] c.pc = "stopped"   -> {Ev("start")}
    [] c.pc = "connect"   -> {[e |-> "open", now |-> c.now, rc |-> rc] : rc \in {"ok", "fail"}} \cup {Ev("stop")}
    [] c.pc \in {"query", "poll"} -> {QueryEvent, [e |-> "sendfail", now |-> c.now, kind |-> "err"]}
    [] c.pc \in {"resp1", "resp", "est"} ->
          (IF c.owed # None THEN {ReportEvent}
           ELSE {[e |-> "recv", now |-> c.now, f |-> f] : f \in {x \in Frames : x.t \notin {"ipv4", "ipv6", "router_key"} \/ Len(c.buf) < MaxBuf}}
                \cup {[e |-> "rfault", now |-> c.now, kind |-> k, at |-> "hdr", adv |-> (IF k = "timeout" /\ c.pc = "est" THEN WaitTimeout(c, c.now) ELSE 0),   \* receive timeouts inside a sync take no model time
                       to |-> (IF c.pc = "est" THEN WaitTimeout(c, c.now) ELSE 60)] : k \in {"timeout", "err", "closed", "intr"}}
                \cup {Ev("stop")})
    [] c.pc = "reported"  -> (IF c.owed # None THEN {ReportEvent}
                              ELSE {[e |-> "rfault", now |-> c.now, kind |-> "closed", at |-> "hdr", adv |-> 0,
                                     to |-> (IF c.back = "est" THEN WaitTimeout(c, c.now) ELSE 60)], Ev("close")})
    [] c.pc \in {"errwait", "fastrc"} -> {Ev("close")}
    [] c.pc \in {"sleepretry", "nodata"} -> {[e |-> "sleep", now |-> c.now, sec |-> c.iv.t.n, adv |-> c.iv.t.n]}
    [] OTHER -> {}

Init == c = Blank /\ bad = {} /\ hist = <<>>
Step(e) == LET r == StepResult(c, e) IN c' = r.c /\ bad' = r.bad
Next == \E e \in Enabled : Step(e) /\ UNCHANGED hist
NextH == \E e \in Enabled : Step(e) /\ hist' = Append(hist, e)
Spec == Init /\ [][Next]_mvars
SpecH == Init /\ [][NextH]_mvars
Bound == c.now <= MaxNow
Emit == (Len(hist) = D) => PrintT(<<"BEH", ToJson(hist)>>)

-----------------------------------------------------------------------------
(* the envelope is self-consistent: the environment above never falsifies a monitor *)
I_NoMonitorFails == bad = {}
(* C05: what a query carries is what the last completed exchange dictates (ghost ack) *)
I_C05 == (c.pc = "resp1" /\ c.lastq # None) =>
            (IF c.ack = None THEN c.lastq.t = "reset_query"
             ELSE c.lastq.t = "serial_query" /\ c.lastq.sess = c.ack.s /\ c.lastq.sn = c.ack.n)
(* C07: right after a (re)connect that found the data expired, the data is gone and a reset is due *)
I_C07 == (c.pc \in {"query", "errwait"} /\ c.expired) => (c.my = {} /\ c.needSess)
I_C07b == c.pc = "stopped" => c.my = {}
(* C17: outside accept-any the timers stay within the RFC 8210 ranges *)
I_C17 == (c.mode # "accept_any" /\ c.pc # "dead") => IvAllInRange(c.iv)
(* C03: an exchange that fails leaves this socket's records as they were (or purged: alt) and never touches others *)
P_C03 == [][(c'.pc = "reported" /\ c.pc \in {"resp1", "resp"}) => (c'.my = c.my /\ c'.needSess = c.needSess /\ c'.serial = c.serial)]_mvars
P_C03oth == [][c.pc # "dead" => c'.oth = c.oth]_mvars
(* C13: the version never increases *)
P_C13 == [][c.pc # "dead" => c'.ver <= c.ver]_mvars
(* C03: a successful End of Data makes the serial the one it carried *)
P_C03ok == [][(c'.pc = "est" /\ c.pc = "resp") => (c'.ack # None /\ c'.serial = c'.ack.n /\ ~c'.needSess)]_mvars
=============================================================================
