\* exhaustive: adversarial prefix (as MCRtrSocket.cfg), then a correct cache for ever; convergence within K client steps
SPECIFICATION SpecC
CONSTANTS
  KF = {}
  RecSet = {"4:a", "k:c"}
  Modes = {"min_max", "accept_any"}
  IvSet = {"bad"}
  MaxBuf = 2
  MaxNow = 2500
  D = 0
  K = 11
  GoodData = {"4:a"}
CONSTRAINT Bound
INVARIANTS I_NoMonitorFails I_Conv I_Progress I_Target I_C05 I_C07 I_C17
PROPERTIES P_Stay P_C13
