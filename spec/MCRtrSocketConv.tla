-------------------------- MODULE MCRtrSocketConv --------------------------
(* Convergence of the envelope (C08, model half).                                         *)
(* The adversarial environment of MCRtrSocket runs for a while; at an arbitrary point it  *)
(* turns good for ever (action GoGood): the transport opens, sends succeed, and the cache *)
(* answers every query the way RFC 8210 says, in the query's version, from the fixed      *)
(* state (session 3, serial "9", data GoodData): a session the adversary never used, because a   *)
(* client that was told lies under the very session and serial the correct cache now has  *)
(* cannot find that out (no protocol could). From then on the only nondeterminism is  *)
(* the client's.  Checked:                                                                *)
(*   I_Conv     within K client steps after GoGood the client is ESTABLISHED with exactly *)
(*              GoodData (a step-bounded form of liveness: no fairness, no interference   *)
(*              from the state constraint);                                               *)
(*   I_NoMonitorFails (inherited)  includes the wall-clock bound of the C08 monitor       *)
(*              (refresh + expire + 4 * retry + 240 s), so the envelope that the traces   *)
(*              of the real FSM are validated against is itself shown to converge in time;*)
(*   P_Stay     once converged in good mode the client stays converged.                   *)
EXTENDS MCRtrSocket

CONSTANTS K, GoodData
VARIABLE env          \* [good, q (frames the cache still has to deliver), steps (client steps since GoGood)]
cvars == <<c, bad, hist, env>>

GRaw(tag, v) == Raw("g" \o tag \o ToString(v))
GCacheResponse(v) == [t |-> "cache_response", v |-> v, len |-> L(8), sess |-> 3, raw |-> GRaw("cr", v)]
GPayload(r, v) == [t |-> TypeOfRec(r), v |-> v, len |-> L(NatOf(TypeOfRec(r))), sess |-> 0, rec |-> r, flags |-> 1, raw |-> GRaw(r, v)]
GEod(v) == IF v = 0 THEN [t |-> "eod", v |-> 0, len |-> L(12), sess |-> 3, sn |-> "9", raw |-> GRaw("e", 0)]
           ELSE [t |-> "eod", v |-> v, len |-> L(24), sess |-> 3, sn |-> "9", iv |-> Iv0, raw |-> GRaw("e", v)]
GCacheReset(v) == [t |-> "cache_reset", v |-> v, len |-> L(8), sess |-> 0, raw |-> GRaw("rs", v)]
SeqOfSet(S) == IF S = {} THEN <<>> ELSE LET RECURSIVE F(_)
                                             F(T) == IF T = {} THEN <<>> ELSE LET x == CHOOSE y \in T : TRUE IN <<x>> \o F(T \ {x})
                                         IN F(S)
GoodAnswer(q) ==
  IF q.t = "reset_query" THEN <<GCacheResponse(q.v)>> \o [i \in 1..Cardinality(GoodData) |-> GPayload(SeqOfSet(GoodData)[i], q.v)] \o <<GEod(q.v)>>
  ELSE IF q.sess = 3 /\ q.sn = "9" THEN <<GCacheResponse(q.v), GEod(q.v)>>
  ELSE <<GCacheReset(q.v)>>

(* what a correct cache and a working transport offer in each client state *)
GoodEnabled ==
  CASE c.pc = "stopped"   -> {Ev("start")}
    [] c.pc = "connect"   -> {[e |-> "open", now |-> c.now, rc |-> "ok"]}
    [] c.pc \in {"query", "poll"} -> {QueryEvent}
    [] c.pc \in {"resp1", "resp"} ->
          (IF c.owed # None THEN {ReportEvent}
           ELSE IF env.q # <<>> THEN {[e |-> "recv", now |-> c.now, f |-> Head(env.q)]}
           ELSE {[e |-> "rfault", now |-> c.now, kind |-> "closed", at |-> "hdr", adv |-> 0, to |-> 60]})   \* the exchange the switch interrupted is cut
    [] c.pc = "est"       -> (IF c.owed # None THEN {ReportEvent}
                              ELSE {[e |-> "rfault", now |-> c.now, kind |-> "timeout", at |-> "hdr", adv |-> WaitTimeout(c, c.now),
                                     to |-> WaitTimeout(c, c.now)]})
    [] c.pc = "reported"  -> (IF c.owed # None THEN {ReportEvent} ELSE {Ev("close")})
    [] c.pc \in {"errwait", "fastrc"} -> {Ev("close")}
    [] c.pc \in {"sleepretry", "nodata"} -> {[e |-> "sleep", now |-> c.now, sec |-> c.iv.t.n, adv |-> c.iv.t.n]}
    [] OTHER -> {}

InitC == Init /\ env = [good |-> FALSE, q |-> <<>>, steps |-> 0]
BadStep == ~env.good /\ Next /\ UNCHANGED env
GoGood == /\ ~env.good /\ c.pc # "dead" /\ c.pc # "stopping"
          /\ LET r == StepResult(c, [e |-> "mark", now |-> (IF c.now = 0 THEN 1 ELSE c.now), cdata |-> SeqOfSet(GoodData)])
             IN c' = r.c /\ bad' = r.bad
          /\ env' = [good |-> TRUE, q |-> <<>>, steps |-> 0] /\ UNCHANGED hist
GoodStep == /\ env.good /\ ~c.converged
            /\ \E e \in GoodEnabled :
                 /\ Step(e)
                 /\ env' = [env EXCEPT !.steps = @ + 1,
                                       !.q = IF e.e = "send" /\ e.t \in {"reset_query", "serial_query"} THEN GoodAnswer(e)
                                             ELSE IF e.e = "recv" THEN Tail(@) ELSE IF e.e \in {"open", "close"} THEN <<>> ELSE @]
            /\ UNCHANGED hist
StayStep == /\ env.good /\ c.converged /\ env.steps < K + 8     \* a few more rounds after convergence: the client must stay converged
            /\ \E e \in GoodEnabled :
                 /\ Step(e)
                 /\ env' = [env EXCEPT !.steps = @ + 1,
                                       !.q = IF e.e = "send" /\ e.t \in {"reset_query", "serial_query"} THEN GoodAnswer(e)
                                             ELSE IF e.e = "recv" THEN Tail(@) ELSE @]
            /\ UNCHANGED hist
NextC == BadStep \/ GoGood \/ GoodStep \/ StayStep
SpecC == InitC /\ [][NextC]_cvars

I_Conv == (env.good /\ env.steps >= K) => c.converged
I_Progress == (env.good /\ ~c.converged) => GoodEnabled # {}       \* the client never gets stuck in front of a correct cache
I_Target == (env.good /\ c.converged /\ c.pc = "est") => c.my = GoodData
P_Stay == [][(env.good /\ c.converged /\ c.pc = "est" /\ c'.pc = "est") => c'.my = GoodData]_cvars
=============================================================================
