\* exhaustive (thorough): larger adversarial prefix, two records at the correct cache
SPECIFICATION SpecC
CONSTANTS
  KF = {}
  RecSet = {"4:a", "6:b", "k:c"}
  Modes = {"min_max", "accept_any", "ignore_any"}
  IvSet = {"bad"}
  MaxBuf = 2
  MaxNow = 2500
  D = 0
  K = 12
  GoodData = {"4:a", "6:b"}
CONSTRAINT Bound
INVARIANTS I_NoMonitorFails I_Conv I_Progress I_Target I_C05 I_C07 I_C17
PROPERTIES P_Stay P_C13
