\* transition tour (workers 1: the register that holds the classes seen so far is per worker)
SPECIFICATION SpecL
CONSTANTS
  KF = {}
  RecSet = {"4:a"}
  Modes = {"min_max"}
  IvSet = {"bad", "iv1"}
  MaxBuf = 1
  MaxNow = 2500
  D = 0
CONSTRAINT Bound
INVARIANTS Cover
