-------------------------- MODULE MCRtrSocketCover --------------------------
(* Transition tour of the envelope (binding step A2).                                     *)
(* TLC explores MCRtrSocket breadth-first; every transition is classified by an abstract  *)
(* view of the client state before it and of the event (Cls); the first time a class is   *)
(* reached, the shortest behaviour leading to it (TLCExt!Trace) is printed as JSON.  The   *)
(* (The register holding the classes seen is per TLC worker: with several workers a class   *)
(* may be printed more than once; the driver keeps the shortest behaviour per class.)     *)
(* The printed behaviours are replayed through the real state machine and the recorded seam   *)
(* events validated against RtrSocketTrace: one implementation run per kind of transition *)
(* the model has, instead of whatever a random walk happens to meet.                      *)
EXTENDS MCRtrSocket, TLCExt

EvCls(cc, e) ==
  CASE e.e = "recv"   -> [k |-> "recv", t |-> e.f.t, v |-> e.f.v, cl |-> Class(e.f, cc.ver, cc.firstPdu),
                          s |-> (IF "sess" \in DOMAIN e.f THEN e.f.sess = cc.sess ELSE FALSE),
                          x |-> (IF "flags" \in DOMAIN e.f THEN ToString(e.f.flags) \o (IF e.f.rec \in cc.my THEN "h" ELSE "n")
                                 ELSE IF "code" \in DOMAIN e.f THEN ToString(e.f.code)
                                 ELSE IF e.f.t = "eod" THEN e.f.sn \o (IF "iv" \in DOMAIN e.f THEN e.f.iv.e.s ELSE "") ELSE "")]
    [] e.e = "rfault" -> [k |-> "rfault", t |-> e.kind, v |-> 0, cl |-> "", s |-> FALSE, x |-> ""]
    [] e.e = "send"   -> [k |-> "send", t |-> e.t, v |-> e.v, cl |-> "", s |-> FALSE, x |-> ""]
    [] e.e = "open"   -> [k |-> "open", t |-> e.rc, v |-> 0, cl |-> "", s |-> FALSE, x |-> ""]
    [] e.e = "init"   -> [k |-> "init", t |-> e.mode, v |-> 0, cl |-> "", s |-> FALSE, x |-> ""]
    [] OTHER          -> [k |-> e.e, t |-> "", v |-> 0, cl |-> "", s |-> FALSE, x |-> ""]
Cls(cc, e) == [pc |-> cc.pc, ver |-> cc.ver, first |-> cc.firstPdu, need |-> cc.needSess, data |-> cc.my # {},
               bufn |-> Len(cc.buf), owed |-> cc.owed # None, md |-> cc.mayDown, ex |-> cc.expired, alt |-> cc.alt # None,
               fast |-> cc.fast, back |-> cc.back, ev |-> EvCls(cc, e)]

NextL == \E e \in Enabled : Step(e) /\ hist' = <<e, Cls(c, e)>>
SpecL == Init /\ [][NextL]_mvars
Events(tr) == [i \in 1..(Len(tr) - 1) |-> tr[i + 1].hist[1]]
Cover == \/ hist = <<>>
         \/ hist[2] \in TLCGet(1)
         \/ /\ TLCSet(1, TLCGet(1) \cup {hist[2]})
            /\ PrintT(<<"BEH", ToJson([cls |-> hist[2], evs |-> Events(Trace)])>>)
ASSUME TLCSet(1, {})
=============================================================================
