\* exhaustive (thorough): three records (one per family), all four interval modes, payload buffers up to 2 PDUs, clock 1000..2500
SPECIFICATION Spec
CONSTANTS
  KF = {}
  RecSet = {"4:a", "6:b", "k:c"}
  Modes = {"min_max", "accept_any", "ignore_any", "ignore_on_failure"}
  IvSet = {"bad"}
  MaxBuf = 2
  MaxNow = 2500
  D = 0
CONSTRAINT Bound
INVARIANTS I_NoMonitorFails I_C05 I_C07 I_C07b I_C17
PROPERTIES P_C03 P_C03oth P_C13 P_C03ok
