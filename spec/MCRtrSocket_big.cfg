\* exhaustive (thorough): payload buffers up to 2 PDUs, clock up to 2200 (three retry sleeps)
SPECIFICATION Spec
CONSTANTS
  KF = {}
  RecSet = {"4:a", "6:b", "k:c"}
  Modes = {"min_max", "accept_any", "ignore_any", "ignore_on_failure"}
  IvSet = {"bad", "iv1"}
  MaxBuf = 3
  MaxNow = 4700
  D = 0
CONSTRAINT Bound
INVARIANTS I_NoMonitorFails I_C05 I_C07 I_C07b I_C17
PROPERTIES P_C03 P_C03oth P_C13 P_C03ok
