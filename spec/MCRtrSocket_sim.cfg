\* behaviour generation (simulation) for replay through the real FSM
SPECIFICATION SpecH
CONSTANTS
  KF = {}
  RecSet = {"4:a", "6:b", "k:c"}
  Modes = {"min_max", "accept_any", "ignore_any", "ignore_on_failure"}
  IvSet = {"bad", "iv1"}
  MaxBuf = 4
  MaxNow = 100000
  D = 40
INVARIANTS Emit I_NoMonitorFails I_C05
