\* exhaustive: 9 entries (2 AS x 2 keys x 2 sources sharing one SKI + one other SKI), 2 tables, reload protocol
SPECIFICATION SpecX
CONSTANTS
  Key <- MCKey
  Srcs <- MCSrcs
  NT = 2
  D = 0
INVARIANTS MirrorOK LookupsPartition
PROPERTIES ReloadAtomic
