---------------------------- MODULE MCSpkiTable ----------------------------
(* Model-checking instance of SpkiTable + behaviour generation (history variable) *)
EXTENDS SpkiTable, Json
MCSrcs == {"A", "B"}
MCKey == [a : {"1", "2"}, k : {"s1"}, p : {"p1", "p2"}, s : MCSrcs] \cup [a : {"1"}, k : {"s2"}, p : {"p1"}, s : {"A"}]

VARIABLE hist
CONSTANT D
Rl(op) == hist' = Append(hist, op)
NextH ==
  \/ /\ ph = "idle" /\ UNCHANGED <<ph, rs>>
     /\ \/ \E e \in Key : Add(1, e) /\ Rl([op |-> "add", t |-> 1, r |-> e])
        \/ \E e \in Key : Remove(1, e) /\ Rl([op |-> "rm", t |-> 1, r |-> e])
        \/ \E s \in Srcs : SrcRemove(1, s) /\ Rl([op |-> "srcrm", t |-> 1, s |-> s])
  \/ \E s \in Srcs : BeginReload(s) /\ Rl([op |-> "init", t |-> 2, cbk |-> 0])
  \/ CopyOthers /\ Rl([op |-> "copyx", src |-> 1, dst |-> 2, s |-> rs])
  \/ /\ ph = "shadow" /\ UNCHANGED <<ph, rs>>
     /\ \E e \in {x \in Key : x.s = rs} : \/ Add(2, e) /\ Rl([op |-> "add", t |-> 2, r |-> e])
                                          \/ Remove(2, e) /\ Rl([op |-> "rm", t |-> 2, r |-> e])
  \/ Abort /\ Rl([op |-> "free", t |-> 2])
  \/ SwapIn /\ Rl([op |-> "swap", a |-> 1, b |-> 2])
  \/ Diff /\ Rl([op |-> "diff", new |-> 1, old |-> 2, s |-> rs])
  \/ Finish /\ Rl([op |-> "free", t |-> 2])
XIdle == Idle /\ UNCHANGED hist
XBeginReload == (\E s \in Srcs : BeginReload(s)) /\ UNCHANGED hist
XCopyOthers == CopyOthers /\ UNCHANGED hist
XShadowApply == ShadowApply /\ UNCHANGED hist
XAbort == Abort /\ UNCHANGED hist
XSwapIn == SwapIn /\ UNCHANGED hist
XDiff == Diff /\ UNCHANGED hist
XFinish == Finish /\ UNCHANGED hist
NextX == XIdle \/ XBeginReload \/ XCopyOthers \/ XShadowApply \/ XAbort \/ XSwapIn \/ XDiff \/ XFinish
SpecX == Init /\ hist = <<>> /\ [][NextX]_<<vars, hist>>
SpecH == Init /\ hist = <<>> /\ [][NextH]_<<vars, hist>>
Emit == (Len(hist) = D) => PrintT(<<"BEH", ToJson(hist)>>)
=============================================================================
