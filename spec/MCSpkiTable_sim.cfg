\* behaviour generation (simulation) for replay into the real router-key table
SPECIFICATION SpecH
CONSTANTS
  Key <- MCKey
  Srcs <- MCSrcs
  NT = 2
  D = 30
INVARIANTS Emit MirrorOK
