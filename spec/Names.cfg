SPECIFICATION TraceSpec
INVARIANTS OK_C20
POSTCONDITION TraceAccepted
