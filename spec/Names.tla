---------------------------- MODULE Names ----------------------------
(* C20: the textual name of every socket state / group status.  The enumerator lists are *)
(* generated from the public headers at check time (NamesGen.tla), so an enumerator that  *)
(* was added without a name is caught.  Every line of the trace is one call               *)
(* [fn, v, crash, null, res]; the expected result is the enumerator's name for declared   *)
(* values and the documented NULL for every other integer.                                *)
EXTENDS Naturals, Integers, Sequences, TLC, Json, IOUtils, NamesGen
JTrace == ndJsonDeserialize(IOEnv.TRACE)
VARIABLES l, bad
Enum(fn) == IF fn = "state" THEN SocketStates ELSE MgrStatuses       \* sequences of names, value = position - 1
OKCall(e) == /\ ~e.crash
             /\ IF e.v >= 0 /\ e.v < Len(Enum(e.fn))
                THEN ~e.null /\ e.res = Enum(e.fn)[e.v + 1]
                ELSE e.null
TraceInit == l = 1 /\ bad = {}
TraceNext == /\ l <= Len(JTrace) /\ l' = l + 1
             /\ bad' = IF OKCall(JTrace[l]) THEN {} ELSE {"C20"}
TraceSpec == TraceInit /\ [][TraceNext]_<<l, bad>>
OK_C20 == bad = {}
TraceAccepted == TLCGet("stats").diameter - 1 = Len(JTrace)
=============================================================================
