---- MODULE NamesGen ----
\* generated from rtrlib/rtr/rtr.h and rtrlib/rtr_mgr.h by lib/checks/names.py
SocketStates == <<"RTR_CONNECTING", "RTR_ESTABLISHED", "RTR_RESET", "RTR_SYNC", "RTR_FAST_RECONNECT", "RTR_ERROR_NO_DATA_AVAIL", "RTR_ERROR_NO_INCR_UPDATE_AVAIL", "RTR_ERROR_FATAL", "RTR_ERROR_TRANSPORT", "RTR_SHUTDOWN", "RTR_CLOSED">>
MgrStatuses == <<"RTR_MGR_CLOSED", "RTR_MGR_CONNECTING", "RTR_MGR_ESTABLISHED", "RTR_MGR_ERROR">>
====
