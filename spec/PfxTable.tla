---------------------------- MODULE PfxTable ----------------------------
(* Contract of rtrlib's prefix table (the pfx_table_ functions), as a state machine over     *)
(* NT tables.  One action per public operation; the notifications an operation  *)
(* owes are part of the action (variable cbs = the bag of callbacks emitted by  *)
(* the last operation), and `mirror` is rebuilt from callbacks only (C09).      *)
(*                                                                              *)
(* The reload sequence of rtr_sync_receive_and_store_pdus is modelled with the  *)
(* granularity of the code: CopyExcept, Add*, Swap, NotifyDiff (an algorithm:   *)
(* walk the new table deleting from the old one, then walk the rest of the old  *)
(* one), Free(shadow).                                                          *)
EXTENDS Naturals, Sequences, FiniteSets, TLC, Rfc6811

CONSTANTS Rec,      \* finite universe of records (model checking only)
          Srcs,     \* source names
          NT        \* number of tables (1 = live table, 2 = shadow)

VARIABLES tabs,     \* [1..NT -> SUBSET Rec]      contents
          hascb,    \* [1..NT -> BOOLEAN]         table has an update callback installed
          alive,    \* [1..NT -> BOOLEAN]         initialised and not freed
          mirror,   \* [1..NT -> SUBSET Rec]      contents rebuilt from callbacks alone
          pending,  \* a swap happened whose net difference has not been notified yet
          rc,       \* result of the last operation
          cbs,      \* set of [t, add, r] emitted by the last operation (each exactly once)
          ph, rs    \* reload phase and reloading source (model checking only)

vars == <<tabs, hascb, alive, mirror, pending, rc, cbs, ph, rs>>
T == 1..NT

ApplyCbs(m, C) == [t \in T |-> (m[t] \cup {c.r : c \in {x \in C : x.t = t /\ x.add}})
                                  \ {c.r : c \in {x \in C : x.t = t /\ ~x.add}}]
Notes(t, add, S) == IF hascb[t] THEN {[t |-> t, add |-> add, r |-> r] : r \in S} ELSE {}

Init == /\ tabs = [t \in T |-> {}] /\ hascb = [t \in T |-> t = 1] /\ alive = [t \in T |-> t = 1]
        /\ mirror = [t \in T |-> {}] /\ pending = FALSE /\ rc = "ok" /\ cbs = {}
        /\ ph = "idle" /\ rs = CHOOSE s \in Srcs : TRUE

InitTable(t, cb) == /\ ~alive[t]
                    /\ alive' = [alive EXCEPT ![t] = TRUE] /\ hascb' = [hascb EXCEPT ![t] = cb]
                    /\ tabs' = [tabs EXCEPT ![t] = {}] /\ mirror' = [mirror EXCEPT ![t] = {}]
                    /\ rc' = "ok" /\ cbs' = {} /\ UNCHANGED pending

Add(t, r) == /\ alive[t]
             /\ IF r \in tabs[t]
                THEN rc' = "dup" /\ cbs' = {} /\ UNCHANGED <<tabs, mirror>>
                ELSE /\ rc' = "ok" /\ tabs' = [tabs EXCEPT ![t] = @ \cup {r}]
                     /\ cbs' = Notes(t, TRUE, {r}) /\ mirror' = ApplyCbs(mirror, cbs')
             /\ UNCHANGED <<hascb, alive, pending>>

Remove(t, r) == /\ alive[t]
                /\ IF r \notin tabs[t]
                   THEN rc' = "nf" /\ cbs' = {} /\ UNCHANGED <<tabs, mirror>>
                   ELSE /\ rc' = "ok" /\ tabs' = [tabs EXCEPT ![t] = @ \ {r}]
                        /\ cbs' = Notes(t, FALSE, {r}) /\ mirror' = ApplyCbs(mirror, cbs')
                /\ UNCHANGED <<hascb, alive, pending>>

(* an operation that fails for lack of memory reports an error and changes nothing (C18) *)
OpFails(t) == /\ alive[t] /\ rc' = "err" /\ cbs' = {}
              /\ UNCHANGED <<tabs, hascb, alive, mirror, pending>>

SrcRemove(t, s) == /\ alive[t] /\ rc' = "ok"
                   /\ LET gone == {r \in tabs[t] : r.s = s} IN
                      /\ tabs' = [tabs EXCEPT ![t] = @ \ gone]
                      /\ cbs' = Notes(t, FALSE, gone) /\ mirror' = ApplyCbs(mirror, cbs')
                   /\ UNCHANGED <<hascb, alive, pending>>

Free(t) == /\ alive[t] /\ rc' = "ok"
           /\ cbs' = Notes(t, FALSE, tabs[t]) /\ mirror' = ApplyCbs(mirror, cbs')
           /\ tabs' = [tabs EXCEPT ![t] = {}] /\ alive' = [alive EXCEPT ![t] = FALSE]
           /\ UNCHANGED <<hascb, pending>>

FreeWithoutNotify(t) == /\ alive[t] /\ rc' = "ok" /\ cbs' = {}
                        /\ tabs' = [tabs EXCEPT ![t] = {}] /\ alive' = [alive EXCEPT ![t] = FALSE]
                        /\ hascb' = [hascb EXCEPT ![t] = FALSE] /\ UNCHANGED <<mirror, pending>>

(* pfx_table_copy_except_socket(src, dst, s): every record of src not owned by s is added to dst *)
CopyExcept(a, b, s) == /\ a # b /\ alive[a] /\ alive[b] /\ rc' = "ok"
                       /\ LET new == {r \in tabs[a] : r.s # s} \ tabs[b] IN
                          /\ tabs' = [tabs EXCEPT ![b] = @ \cup new]
                          /\ cbs' = Notes(b, TRUE, new) /\ mirror' = ApplyCbs(mirror, cbs')
                       /\ UNCHANGED <<hascb, alive, pending>>

Swap(a, b) == /\ a # b /\ alive[a] /\ alive[b] /\ rc' = "ok" /\ cbs' = {}
              /\ tabs' = [tabs EXCEPT ![a] = tabs[b], ![b] = tabs[a]]
              /\ pending' = TRUE /\ UNCHANGED <<hascb, alive, mirror>>

(* pfx_table_notify_diff(new, old, s) as the algorithm it is:                      *)
(*  pass 1: for r in new with source s: remove r from old; if that fails notify added(r) *)
(*  pass 2: for r left in old with source s: notify removed(r)                           *)
DiffPass1(new, old, s) == [old   |-> old \ {r \in new : r.s = s},
                           added |-> {r \in new : r.s = s /\ r \notin old}]
NotifyDiff(n, o, s) ==
  /\ n # o /\ alive[n] /\ alive[o] /\ rc' = "ok"
  /\ LET p1 == DiffPass1(tabs[n], tabs[o], s)
         removed == {r \in p1.old : r.s = s}
     IN /\ tabs' = [tabs EXCEPT ![o] = p1.old]
        /\ cbs' = Notes(n, TRUE, p1.added) \cup Notes(n, FALSE, removed)
        /\ mirror' = ApplyCbs(mirror, cbs')
  /\ pending' = FALSE /\ UNCHANGED <<hascb, alive>>

(* Operation histories: free use of the live table while idle, and the reload protocol of  *)
(* rtr_sync_receive_and_store_pdus with the code's own granularity (ph = reload phase).    *)
Idle ==
  /\ ph = "idle" /\ UNCHANGED <<ph, rs>>
  /\ \/ \E r \in Rec : Add(1, r) \/ Remove(1, r)
     \/ \E s \in Srcs : SrcRemove(1, s)
     \/ OpFails(1)
BeginReload(s) == /\ ph = "idle" /\ InitTable(2, FALSE) /\ ph' = "init" /\ rs' = s
CopyOthers     == /\ ph = "init" /\ CopyExcept(1, 2, rs) /\ ph' = "shadow" /\ UNCHANGED rs
ShadowApply    == /\ ph = "shadow" /\ UNCHANGED <<ph, rs>>
                  /\ \E r \in {x \in Rec : x.s = rs} : Add(2, r) \/ Remove(2, r)
Abort          == /\ ph \in {"init", "shadow"} /\ FreeWithoutNotify(2) /\ ph' = "idle" /\ UNCHANGED rs
SwapIn         == /\ ph = "shadow" /\ Swap(1, 2) /\ ph' = "swapped" /\ UNCHANGED rs
Diff           == /\ ph = "swapped" /\ NotifyDiff(1, 2, rs) /\ ph' = "diffed" /\ UNCHANGED rs
Finish         == /\ ph = "diffed" /\ FreeWithoutNotify(2) /\ ph' = "idle" /\ UNCHANGED rs
Next == Idle \/ (\E s \in Srcs : BeginReload(s)) \/ CopyOthers \/ ShadowApply \/ Abort \/ SwapIn \/ Diff \/ Finish
Spec == Init /\ [][Next]_vars

-----------------------------------------------------------------------------
(* C09: at every public-operation return (outside the swap..diff window) the      *)
(* callback stream reproduces the table.                                          *)
MirrorOK == ~pending => \A t \in T : (alive[t] /\ hascb[t]) => mirror[t] = tabs[t]
TypeOK == /\ \A t \in T : tabs[t] \subseteq Rec /\ rc \in {"ok", "dup", "nf", "err"}

(* The reload protocol of rtr_sync: shadow := copy_except(live, s) + newset; swap; diff.   *)
(* Checked as an action property: NotifyDiff right after Swap reports exactly the net      *)
(* difference for s and nothing for other sources.                                         *)
DiffIsNet == [][(pending /\ ~pending') =>
                  \A c \in cbs' : c.r.s = rs /\ (c.add => c.r \notin mirror[c.t]) /\ (~c.add => c.r \in mirror[c.t])]_vars
(* a reload never changes what other sources contributed, and ends with exactly the shadow's records for rs *)
ReloadAtomic == [][(ph = "shadow" /\ ph' = "swapped") =>
                     /\ {r \in tabs'[1] : r.s # rs} = {r \in tabs[1] : r.s # rs}
                     /\ {r \in tabs'[1] : r.s = rs} = {r \in tabs[2] : r.s = rs}]_vars
=============================================================================
