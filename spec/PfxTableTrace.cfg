\* trace validation; the INVARIANT line is replaced per property by the check driver
SPECIFICATION TraceSpec
CONSTANTS
  Rec <- TraceRec
  Srcs <- TraceSrcs
  NT = 2
INVARIANTS OK_C01 OK_C02 OK_C09 OK_C18
POSTCONDITION TraceAccepted
