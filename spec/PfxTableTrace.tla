---------------------------- MODULE PfxTableTrace ----------------------------
(* Trace validation for the prefix table: every line of the ndjson file named by  *)
(* the environment variable TRACE is one public-operation return of the real      *)
(* pfx_table code, with its arguments, result and the callbacks it emitted.       *)
(* The next state is always the one the contract (PfxTable) predicts; the logged  *)
(* observations are compared by monitors whose failures are collected in `bad`    *)
(* under the id of the property they belong to, so that each property can be      *)
(* checked on its own (INVARIANT OK_C01 / OK_C02 / OK_C09 / OK_C18).              *)
EXTENDS PfxTable, Json, IOUtils

JTrace == ndJsonDeserialize(IOEnv.TRACE)
VARIABLES l, bad
tvars == <<vars, l, bad>>

Ev == JTrace[l]
Is(e) == l <= Len(JTrace) /\ JTrace[l].e = e /\ l' = l + 1
Has(f) == f \in DOMAIN Ev
AF == Has("af") /\ Ev.af                       \* the harness injected an allocation failure in this call
Fails(S) == {p[1] : p \in {x \in S : ~x[2]}}   \* S: set of <<property id, monitor value>>

CbSeq  == IF Has("cb") THEN Ev.cb ELSE <<>>
CbSet  == {[t |-> CbSeq[i].t, add |-> CbSeq[i].add, r |-> CbSeq[i].r] : i \in 1..Len(CbSeq)}
CbExact(expected) == Cardinality(CbSet) = Len(CbSeq) /\ CbSet = expected   \* none missing, none extra, none repeated

TInit == /\ Is("init") /\ InitTable(Ev.t, Ev.cbk) /\ bad' = {} /\ UNCHANGED <<ph, rs>>

TAdd  == /\ Is("add") /\ ~AF /\ Add(Ev.t, Ev.r)
         /\ bad' = Fails({<<"C02", rc' = Ev.rc>>, <<"C09", CbExact(cbs')>>})
         /\ UNCHANGED <<ph, rs>>
TRm   == /\ Is("rm") /\ ~AF /\ Remove(Ev.t, Ev.r)
         /\ bad' = Fails({<<"C02", rc' = Ev.rc>>, <<"C09", CbExact(cbs')>>})
         /\ UNCHANGED <<ph, rs>>
TSrcRm == /\ Is("srcrm") /\ ~(AF /\ Ev.rc = "err") /\ SrcRemove(Ev.t, Ev.s)
          /\ bad' = Fails({<<"C02", rc' = Ev.rc>>, <<"C09", CbExact(cbs')>>})
          /\ UNCHANGED <<ph, rs>>
(* with an injected allocation failure an operation may fail, but then it changed nothing (C18); *)
(* or it may still succeed (the failed allocation was not needed / was recovered from)           *)
TFailedOp == /\ l <= Len(JTrace) /\ Ev.e \in {"add", "rm"} /\ AF /\ l' = l + 1
             /\ \/ /\ Ev.rc = "err" /\ OpFails(Ev.t) /\ bad' = Fails({<<"C18", CbExact({})>>})
                \/ /\ Ev.rc # "err" /\ (IF Ev.e = "add" THEN Add(Ev.t, Ev.r) ELSE Remove(Ev.t, Ev.r))
                   /\ bad' = Fails({<<"C18", rc' = Ev.rc>>, <<"C18", CbExact(cbs')>>})
             /\ UNCHANGED <<ph, rs>>
(* remove-by-source and validation under an injected allocation failure: an error is admissible, a partial effect is not *)
TSrcRmFailed == /\ Is("srcrm") /\ AF /\ Ev.rc = "err" /\ OpFails(Ev.t)
                /\ bad' = Fails({<<"C18", CbExact({})>>}) /\ UNCHANGED <<ph, rs>>
TValFailed == /\ Is("val") /\ AF /\ Ev.rc = "err" /\ bad' = {} /\ UNCHANGED vars
TFree == /\ Is("free") /\ Free(Ev.t) /\ bad' = Fails({<<"C09", CbExact(cbs')>>}) /\ UNCHANGED <<ph, rs>>
TFreeQ == /\ Is("freeq") /\ FreeWithoutNotify(Ev.t) /\ bad' = Fails({<<"C09", CbExact(cbs')>>}) /\ UNCHANGED <<ph, rs>>
TCopy == /\ Is("copyx") /\ CopyExcept(Ev.src, Ev.dst, Ev.s)
         /\ bad' = Fails({<<"C02", rc' = Ev.rc>>, <<"C09", CbExact(cbs')>>}) /\ UNCHANGED <<ph, rs>>
TSwap == /\ Is("swap") /\ Swap(Ev.a, Ev.b) /\ bad' = Fails({<<"C09", CbExact(cbs')>>}) /\ UNCHANGED <<ph, rs>>
TDiff == /\ Is("diff") /\ NotifyDiff(Ev.new, Ev.old, Ev.s)
         /\ bad' = Fails({<<"C09", CbExact(cbs')>>}) /\ UNCHANGED <<ph, rs>>

TVal  == /\ Is("val") /\ alive[Ev.t] /\ ~(AF /\ Ev.rc = "err")
         /\ bad' = Fails({<<"C01", Ev.rc = "ok">>,
                          <<"C01", Ev.res = Validity(tabs[Ev.t], Ev.q, Ev.a)>>,
                          <<"C01", Has("why") => ReasonOK(tabs[Ev.t], Ev.q, Ev.a, Ev.res, Ev.why)>>})
         /\ UNCHANGED vars
TEnum == /\ Is("enum") /\ alive[Ev.t]
         /\ bad' = Fails({<<"C02", NoRepeat(Ev.all)>>, <<"C02", SeqToSet(Ev.all) = tabs[Ev.t]>>})
         /\ UNCHANGED vars
TReset == /\ Is("reset") /\ bad' = {}
          /\ tabs' = [t \in T |-> {}] /\ hascb' = [t \in T |-> FALSE] /\ alive' = [t \in T |-> FALSE]
          /\ mirror' = [t \in T |-> {}] /\ pending' = FALSE /\ rc' = "ok" /\ cbs' = {} /\ UNCHANGED <<ph, rs>>

TraceInit == /\ tabs = [t \in T |-> {}] /\ hascb = [t \in T |-> FALSE] /\ alive = [t \in T |-> FALSE]
             /\ mirror = [t \in T |-> {}] /\ pending = FALSE /\ rc = "ok" /\ cbs = {}
             /\ ph = "idle" /\ rs = "A" /\ l = 1 /\ bad = {}
TraceNext == TInit \/ TAdd \/ TRm \/ TSrcRm \/ TSrcRmFailed \/ TValFailed \/ TFailedOp \/ TFree \/ TFreeQ \/ TCopy \/ TSwap \/ TDiff
             \/ TVal \/ TEnum \/ TReset
TraceSpec == TraceInit /\ [][TraceNext]_tvars

OK_C01 == "C01" \notin bad
OK_C02 == "C02" \notin bad
OK_C09 == "C09" \notin bad /\ MirrorOK
OK_C18 == "C18" \notin bad
TraceAccepted == TLCGet("stats").diameter - 1 = Len(JTrace)
TraceRec == {}
TraceSrcs == {"A", "B", "C"}
=============================================================================
