---------------------------- MODULE PfxTrie ----------------------------
(* The algorithm of rtrlib/pfx/trie/trie.c and trie-pfx.c, node by node:            *)
(*   trie_lookup_exact (node, or the parent where insertion starts, with the level  *)
(*   bookkeeping), trie_insert with swap_nodes, trie_remove pulling up the child    *)
(*   with the shorter prefix, pfx_table_remove_id with its re-check loop, and the   *)
(*   covering walk of pfx_table_validate_r with its reason accumulation.            *)
(* The tree is a function from positions (bit paths from the root) to nodes; the    *)
(* children of position p are p \o <<0>> and p \o <<1>>.  Prefixes are bit          *)
(* sequences of their own length (host bits are zero by precondition).              *)
(* `recs` is the abstract set the tree must represent (refinement witness).         *)
EXTENDS Naturals, Sequences, FiniteSets, TLC, Json

CONSTANTS W,        \* address width of the small universe
          Srcs,     \* sources
          Asns,     \* AS numbers of records (0 = AS 0, never matches)
          MaxLenMode \* "len": max_len = len only; "all": every max_len in len..W
VARIABLES tree, recs, hist
vars == <<tree, recs, hist>>

Bits(n) == UNION {[1..k -> {0, 1}] : k \in 0..n}
Bit(b, i) == IF i + 1 <= Len(b) THEN b[i + 1] ELSE 0          \* bit i (0-based); host bits are zero
Front(p) == SubSeq(p, 1, Len(p) - 1)
Covers(rb, q) == Len(rb) <= Len(q) /\ SubSeq(q, 1, Len(rb)) = rb
Rec == {r \in [bits : Bits(W), maxlen : 0..W, asn : Asns, src : Srcs] :
          IF MaxLenMode = "len" THEN r.maxlen = Len(r.bits) ELSE r.maxlen >= Len(r.bits)}
E(r) == [maxlen |-> r.maxlen, asn |-> r.asn, src |-> r.src]

RECURSIVE LE(_, _, _)                \* trie_lookup_exact
LE(t, p, bits) ==
  LET n == t[p] IN
  IF Len(p) > 0 /\ Len(n.bits) > Len(bits) THEN [path |-> Front(p), found |-> FALSE]
  ELSE IF n.bits = bits THEN [path |-> p, found |-> TRUE]
  ELSE LET c == Append(p, Bit(bits, Len(p))) IN
       IF c \in DOMAIN t THEN LE(t, c, bits) ELSE [path |-> p, found |-> FALSE]

RECURSIVE Ins(_, _, _)               \* trie_insert with swap_nodes
Ins(t, p, new) ==
  LET n == t[p]
      sw == Len(new.bits) < Len(n.bits)
      here == IF sw THEN new ELSE n
      down == IF sw THEN n ELSE new
      t1 == [t EXCEPT ![p] = here]
      c == Append(p, Bit(down.bits, Len(p)))
  IN IF c \in DOMAIN t1 THEN Ins(t1, c, down) ELSE (c :> down) @@ t1

RECURSIVE Rm(_, _)                   \* trie_remove: pull up the child with the shorter prefix
Rm(t, p) ==
  LET lc == Append(p, 0)  rc == Append(p, 1) IN
  IF lc \notin DOMAIN t /\ rc \notin DOMAIN t THEN [q \in DOMAIN t \ {p} |-> t[q]]
  ELSE IF lc \in DOMAIN t /\ (rc \notin DOMAIN t \/ Len(t[lc].bits) < Len(t[rc].bits))
       THEN Rm([t EXCEPT ![p] = t[lc]], lc)
       ELSE Rm([t EXCEPT ![p] = t[rc]], rc)

Empty(t) == <<>> \notin DOMAIN t
AddT(t, r) ==                        \* pfx_table_add
  IF Empty(t) THEN (<<>> :> [bits |-> r.bits, data |-> {E(r)}])
  ELSE LET le == LE(t, <<>>, r.bits) IN
       IF le.found THEN [t EXCEPT ![le.path].data = @ \cup {E(r)}]
       ELSE Ins(t, le.path, [bits |-> r.bits, data |-> {E(r)}])
RemT(t, r) ==                        \* pfx_table_remove
  IF Empty(t) THEN t
  ELSE LET le == LE(t, <<>>, r.bits) IN
       IF ~le.found \/ E(r) \notin t[le.path].data THEN t
       ELSE LET d == t[le.path].data \ {E(r)} IN
            IF d # {} THEN [t EXCEPT ![le.path].data = d] ELSE Rm(t, le.path)

RECURSIVE RmId(_, _, _)              \* pfx_table_remove_id with its re-check loop
RmId(t, p, s) ==
  IF p \notin DOMAIN t THEN t ELSE
  LET d == {e \in t[p].data : e.src # s} IN
  IF d = {} THEN
     LET wasLeaf == Append(p, 0) \notin DOMAIN t /\ Append(p, 1) \notin DOMAIN t
         t1 == Rm(t, p) IN
     IF wasLeaf THEN t1 ELSE RmId(t1, p, s)
  ELSE LET t1 == [t EXCEPT ![p].data = d]
           t2 == RmId(t1, Append(p, 0), s)
       IN RmId(t2, Append(p, 1), s)

Init == tree = <<>> /\ recs = {} /\ hist = <<>>
H(op) == hist' = hist                                  \* exhaustive runs keep no history
Add(r)    == tree' = AddT(tree, r) /\ recs' = recs \cup {r}
Remove(r) == tree' = RemT(tree, r) /\ recs' = recs \ {r}
SrcRm(s)  == tree' = RmId(tree, <<>>, s) /\ recs' = {r \in recs : r.src # s}
Next == \/ \E r \in Rec : (Add(r) \/ Remove(r)) /\ H(0)
        \/ \E s \in Srcs : SrcRm(s) /\ H(0)
Spec == Init /\ [][Next]_vars

(* the same transitions, recording the operation sequence (behaviour generation for replay) *)
OpRec(o, r) == [op |-> o, bits |-> r.bits, m |-> r.maxlen, a |-> r.asn, s |-> r.src]
NextH == \/ \E r \in Rec : Add(r) /\ hist' = Append(hist, OpRec("add", r))
         \/ \E r \in Rec : Remove(r) /\ hist' = Append(hist, OpRec("rm", r))
         \/ \E s \in Srcs : SrcRm(s) /\ hist' = Append(hist, [op |-> "srcrm", s |-> s])
SpecH == Init /\ [][NextH]_vars
CONSTANT D
Emit == (Len(hist) = D) => PrintT(<<"BEH", ToJson(hist)>>)

-----------------------------------------------------------------------------
NodeRecs(p) == {[bits |-> tree[p].bits, maxlen |-> e.maxlen, asn |-> e.asn, src |-> e.src] : e \in tree[p].data}
Refines  == UNION {NodeRecs(p) : p \in DOMAIN tree} = recs
PathInv  == \A p \in DOMAIN tree : Len(p) <= Len(tree[p].bits) /\ SubSeq(tree[p].bits, 1, Len(p)) = p
HeapInv  == \A p \in DOMAIN tree : Len(p) > 0 => Front(p) \in DOMAIN tree /\ Len(tree[Front(p)].bits) <= Len(tree[p].bits)
NoEmpty  == \A p \in DOMAIN tree : tree[p].data # {}
Distinct == \A p, q \in DOMAIN tree : p # q => tree[p].bits # tree[q].bits

RECURSIVE Lk(_, _)                   \* trie_lookup: first covering node along the query bits
Lk(p, q) == IF p \notin DOMAIN tree THEN [ok |-> FALSE, p |-> <<>>]
            ELSE IF Covers(tree[p].bits, q) THEN [ok |-> TRUE, p |-> p] ELSE Lk(Append(p, Bit(q, Len(p))), q)
Match(p, q, asn) == \E e \in tree[p].data : e.asn # 0 /\ e.asn = asn /\ Len(q) <= e.maxlen
RECURSIVE Walk(_, _, _, _)           \* the loop of pfx_table_validate_r, collecting reason nodes
Walk(lk, q, asn, seen) ==
  IF ~lk.ok THEN [res |-> IF seen = {} THEN "NF" ELSE "INV", seen |-> seen]
  ELSE LET p == lk.p  s2 == seen \cup {p} IN
       IF Match(p, q, asn) THEN [res |-> "VALID", seen |-> s2]
       ELSE Walk(Lk(Append(p, Bit(q, Len(p))), q), q, asn, s2)
AbsCover(q) == {r \in recs : Covers(r.bits, q)}
AbsMatch(q, asn) == {r \in AbsCover(q) : r.asn # 0 /\ r.asn = asn /\ Len(q) <= r.maxlen}
AbsRes(q, asn) == IF AbsMatch(q, asn) # {} THEN "VALID" ELSE IF AbsCover(q) # {} THEN "INV" ELSE "NF"
ValidateOK == \A q \in Bits(W), asn \in Asns \cup {99} :
   LET v == Walk(Lk(<<>>, q), q, asn, {})   sr == UNION {NodeRecs(p) : p \in v.seen} IN
   /\ v.res = AbsRes(q, asn)
   /\ v.res = "INV" => sr = AbsCover(q)
   /\ v.res = "VALID" => sr \subseteq AbsCover(q) /\ sr \cap AbsMatch(q, asn) # {}
=============================================================================
