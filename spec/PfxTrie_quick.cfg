\* exhaustive (quick tier): all 7 prefixes of width 2 x 2 sources, AS {1}, max_len = len
\* every order of add / remove / remove-by-source: 2^14 record sets x every reachable tree shape
SPECIFICATION Spec
CONSTANTS
  W = 2
  Srcs = {"A", "B"}
  Asns = {1}
  MaxLenMode = "len"
  D = 0
INVARIANTS Refines PathInv HeapInv NoEmpty Distinct ValidateOK
