\* behaviour generation for replay into the real table (simulation; D = behaviour length)
SPECIFICATION SpecH
CONSTANTS
  W = 3
  Srcs = {"A", "B"}
  Asns = {0, 1, 2}
  MaxLenMode = "all"
  D = 24
INVARIANTS Emit Refines PathInv HeapInv ValidateOK
