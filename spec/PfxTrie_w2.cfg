\* exhaustive: all 7 prefixes of width 2 x 2 sources x AS {0,1} x every max_len
SPECIFICATION Spec
CONSTANTS
  W = 2
  Srcs = {"A", "B"}
  Asns = {1}
  MaxLenMode = "all"
  D = 0
INVARIANTS Refines PathInv HeapInv NoEmpty Distinct ValidateOK
