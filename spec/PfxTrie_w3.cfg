\* exhaustive: all 15 prefixes of width 3, one source, one AS, max_len = len; every add/remove/remove-by-source order
SPECIFICATION Spec
CONSTANTS
  W = 3
  Srcs = {"A"}
  Asns = {1}
  MaxLenMode = "len"
  D = 0
INVARIANTS Refines PathInv HeapInv NoEmpty Distinct ValidateOK
