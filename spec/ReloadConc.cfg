\* the repaired protocol: 2 readers, 3 reloads, every interleaving
SPECIFICATION Spec
CONSTANTS
  Readers = {"r1", "r2"}
  NReload = 3
  PeekBeforeLock = FALSE
INVARIANTS TypeOK OneGeneration NoUseAfterFree Fresh RaceFree
