---------------------------- MODULE ReloadConc ----------------------------
(* The atomic reload of rtr_sync_receive_and_store_pdus (C06) at the granularity of lock calls and   *)
(* memory accesses, with concurrent readers of the live prefix table:                                 *)
(*   build    the shadow table is filled privately (copy of the other sources' records under the read  *)
(*            lock of the live table, then the new full set) - generation g+1 exists next to g          *)
(*   swap     pfx_table_swap: write lock on live and shadow, the two root pointers (IPv4 and IPv6) are  *)
(*            exchanged one after the other, unlock                                                     *)
(*   diff     pfx_table_notify_diff reads the old generation through the shadow table                    *)
(*   free     pfx_table_free_without_notify(shadow) releases the old generation's nodes                 *)
(* A reader (validate / for_each) takes the read lock, reads a root pointer, walks the nodes of the     *)
(* generation it found, unlocks.  PeekBeforeLock = TRUE is the pinned commit's for_each: the root is     *)
(* read before the lock is taken and not read again.                                                    *)
(*   OneGeneration   what a reader returns belongs to exactly one generation (both families of one      *)
(*                   call to a two-family reader come from the same generation);                        *)
(*   NoUseAfterFree  no reader walks nodes of a generation that has been freed;                         *)
(*   Fresh           the generation returned is one that was live between call and return;              *)
(*   RaceFree        conflicting accesses to a root pointer are ordered by the lock.                    *)
EXTENDS Naturals, FiniteSets, TLC
CONSTANTS Readers, NReload, PeekBeforeLock
VARIABLES pc, lockW, lockR, root4, root6, gen, freed, call, seen4, seen6, done
vars == <<pc, lockW, lockR, root4, root6, gen, freed, call, seen4, seen6, done>>
W == "w"
Threads == Readers \cup {W}
Init == /\ pc = [t \in Threads |-> IF t = W THEN "w_idle" ELSE "r_idle"]
        /\ lockW = FALSE /\ lockR = {} /\ root4 = 0 /\ root6 = 0 /\ gen = 0 /\ freed = {} /\ done = 0
        /\ call = [t \in Readers |-> 0] /\ seen4 = [t \in Readers |-> 0] /\ seen6 = [t \in Readers |-> 0]
Go(t, p) == pc' = [pc EXCEPT ![t] = p]
(* ---- the reloading socket thread *)
WCopyLock == /\ pc[W] = "w_idle" /\ done < NReload /\ ~lockW /\ lockR' = lockR \cup {W} /\ Go(W, "w_copy")
             /\ UNCHANGED <<lockW, root4, root6, gen, freed, call, seen4, seen6, done>>
WCopy == /\ pc[W] = "w_copy" /\ lockR' = lockR \ {W} /\ Go(W, "w_build")            \* copy_except_socket: reads under the read lock
         /\ UNCHANGED <<lockW, root4, root6, gen, freed, call, seen4, seen6, done>>
WBuild == /\ pc[W] = "w_build" /\ Go(W, "w_swaplock")                               \* private memory: generation gen+1 is complete
          /\ UNCHANGED <<lockW, lockR, root4, root6, gen, freed, call, seen4, seen6, done>>
WSwapLock == /\ pc[W] = "w_swaplock" /\ ~lockW /\ lockR = {} /\ lockW' = TRUE /\ Go(W, "w_swap4")
             /\ UNCHANGED <<lockR, root4, root6, gen, freed, call, seen4, seen6, done>>
WSwap4 == /\ pc[W] = "w_swap4" /\ root4' = gen + 1 /\ Go(W, "w_swap6")
          /\ UNCHANGED <<lockW, lockR, root6, gen, freed, call, seen4, seen6, done>>
WSwap6 == /\ pc[W] = "w_swap6" /\ root6' = gen + 1 /\ gen' = gen + 1 /\ Go(W, "w_unlock")
          /\ UNCHANGED <<lockW, lockR, root4, freed, call, seen4, seen6, done>>
WUnlock == /\ pc[W] = "w_unlock" /\ lockW' = FALSE /\ Go(W, "w_diff")
           /\ UNCHANGED <<lockR, root4, root6, gen, freed, call, seen4, seen6, done>>
WDiff == /\ pc[W] = "w_diff" /\ Go(W, "w_free")                                     \* reads both generations, no lock on the old one needed
         /\ UNCHANGED <<lockW, lockR, root4, root6, gen, freed, call, seen4, seen6, done>>
WFree == /\ pc[W] = "w_free" /\ freed' = freed \cup {gen - 1} /\ done' = done + 1 /\ Go(W, "w_idle")
         /\ UNCHANGED <<lockW, lockR, root4, root6, gen, call, seen4, seen6>>
(* ---- readers of both families (for_each ipv4 + validate-like walk of ipv6 in one locked section) *)
RCall(t) == /\ pc[t] = "r_idle" /\ call' = [call EXCEPT ![t] = gen]
            /\ Go(t, IF PeekBeforeLock THEN "r_peek" ELSE "r_lock")
            /\ UNCHANGED <<lockW, lockR, root4, root6, gen, freed, seen4, seen6, done>>
RPeek(t) == /\ pc[t] = "r_peek" /\ seen4' = [seen4 EXCEPT ![t] = root4] /\ seen6' = [seen6 EXCEPT ![t] = root6] /\ Go(t, "r_lock")
            /\ UNCHANGED <<lockW, lockR, root4, root6, gen, freed, call, done>>
RLock(t) == /\ pc[t] = "r_lock" /\ ~lockW /\ lockR' = lockR \cup {t} /\ Go(t, IF PeekBeforeLock THEN "r_walk" ELSE "r_root")
            /\ UNCHANGED <<lockW, root4, root6, gen, freed, call, seen4, seen6, done>>
RRoot(t) == /\ pc[t] = "r_root" /\ seen4' = [seen4 EXCEPT ![t] = root4] /\ seen6' = [seen6 EXCEPT ![t] = root6] /\ Go(t, "r_walk")
            /\ UNCHANGED <<lockW, lockR, root4, root6, gen, freed, call, done>>
RWalk(t) == /\ pc[t] = "r_walk" /\ Go(t, "r_unlock")
            /\ UNCHANGED <<lockW, lockR, root4, root6, gen, freed, call, seen4, seen6, done>>
RUnlock(t) == /\ pc[t] = "r_unlock" /\ lockR' = lockR \ {t} /\ Go(t, "r_ret")
              /\ UNCHANGED <<lockW, root4, root6, gen, freed, call, seen4, seen6, done>>
RRet(t) == /\ pc[t] = "r_ret" /\ Go(t, "r_idle")
           /\ UNCHANGED <<lockW, lockR, root4, root6, gen, freed, call, seen4, seen6, done>>
Next == WCopyLock \/ WCopy \/ WBuild \/ WSwapLock \/ WSwap4 \/ WSwap6 \/ WUnlock \/ WDiff \/ WFree
        \/ \E t \in Readers : RCall(t) \/ RPeek(t) \/ RLock(t) \/ RRoot(t) \/ RWalk(t) \/ RUnlock(t) \/ RRet(t)
Spec == Init /\ [][Next]_vars
-----------------------------------------------------------------------------
TypeOK == lockW => lockR = {}
OneGeneration == \A t \in Readers : pc[t] \in {"r_walk", "r_unlock", "r_ret"} => seen4[t] = seen6[t]
NoUseAfterFree == \A t \in Readers : pc[t] = "r_walk" => (seen4[t] \notin freed /\ seen6[t] \notin freed)
Fresh == \A t \in Readers : pc[t] = "r_ret" => (seen4[t] >= call[t] /\ seen4[t] <= gen)
RootAccess(t) == CASE pc[t] \in {"w_swap4", "w_swap6"} -> [wr |-> TRUE, locked |-> TRUE]
                   [] pc[t] = "r_peek" -> [wr |-> FALSE, locked |-> FALSE]
                   [] pc[t] = "r_root" -> [wr |-> FALSE, locked |-> TRUE]
                   [] OTHER -> [wr |-> FALSE, locked |-> TRUE]
Touches(t) == pc[t] \in {"w_swap4", "w_swap6", "r_peek", "r_root"}
RaceFree == \A a, b \in Threads : (a # b /\ Touches(a) /\ Touches(b) /\ (RootAccess(a).wr \/ RootAccess(b).wr))
                                     => (RootAccess(a).locked /\ RootAccess(b).locked)
=============================================================================
