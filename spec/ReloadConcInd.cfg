\* Apalache: apalache-mc check --config=ReloadConcInd.cfg --init=Init --inv=IndInv --length=0 ReloadConcInd.tla
\*           apalache-mc check --config=ReloadConcInd.cfg --init=InitInd --inv=IndInv --length=1 ReloadConcInd.tla
\*           apalache-mc check --config=ReloadConcInd.cfg --init=InitInd --inv=Safe --length=0 ReloadConcInd.tla
CONSTANTS
  Readers = {"r1", "r2"}
  NReload = 1000000
  PeekBeforeLock = FALSE
INIT Init
NEXT Next
