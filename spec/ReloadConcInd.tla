---------------------------- MODULE ReloadConcInd ----------------------------
(* Apalache variant of ReloadConc.tla (same actions; type annotations; the set of freed generations is represented by *)
(* its bound fb: generations below fb are freed - each reload frees exactly the previous generation) with an           *)
(* inductive invariant: Init => IndInv, IndInv /\ Next => IndInv', IndInv => Safe, for ANY number of reloads.          *)
(* The atomic reload of rtr_sync_receive_and_store_pdus (C06) at the granularity of lock calls and   *)
(* memory accesses, with concurrent readers of the live prefix table:                                 *)
(*   build    the shadow table is filled privately (copy of the other sources' records under the read  *)
(*            lock of the live table, then the new full set) - generation g+1 exists next to g          *)
(*   swap     pfx_table_swap: write lock on live and shadow, the two root pointers (IPv4 and IPv6) are  *)
(*            exchanged one after the other, unlock                                                     *)
(*   diff     pfx_table_notify_diff reads the old generation through the shadow table                    *)
(*   free     pfx_table_free_without_notify(shadow) releases the old generation's nodes                 *)
(* A reader (validate / for_each) takes the read lock, reads a root pointer, walks the nodes of the     *)
(* generation it found, unlocks.  PeekBeforeLock = TRUE is the pinned commit's for_each: the root is     *)
(* read before the lock is taken and not read again.                                                    *)
(*   OneGeneration   what a reader returns belongs to exactly one generation (both families of one      *)
(*                   call to a two-family reader come from the same generation);                        *)
(*   NoUseAfterFree  no reader walks nodes of a generation that has been freed;                         *)
(*   Fresh           the generation returned is one that was live between call and return;              *)
(*   RaceFree        conflicting accesses to a root pointer are ordered by the lock.                    *)
EXTENDS Naturals, FiniteSets, TLC
CONSTANTS
  \* @type: Set(Str);
  Readers,
  \* @type: Int;
  NReload,
  \* @type: Bool;
  PeekBeforeLock
VARIABLES
  \* @type: Str -> Str;
  pc,
  \* @type: Bool;
  lockW,
  \* @type: Set(Str);
  lockR,
  \* @type: Int;
  root4,
  \* @type: Int;
  root6,
  \* @type: Int;
  gen,
  \* @type: Int;
  fb,
  \* @type: Str -> Int;
  call,
  \* @type: Str -> Int;
  seen4,
  \* @type: Str -> Int;
  seen6,
  \* @type: Int;
  done
vars == <<pc, lockW, lockR, root4, root6, gen, fb, call, seen4, seen6, done>>
W == "w"
Threads == Readers \cup {W}
Init == /\ pc = [t \in Threads |-> IF t = W THEN "w_idle" ELSE "r_idle"]
        /\ lockW = FALSE /\ lockR = {} /\ root4 = 0 /\ root6 = 0 /\ gen = 0 /\ fb = 0 /\ done = 0
        /\ call = [t \in Readers |-> 0] /\ seen4 = [t \in Readers |-> 0] /\ seen6 = [t \in Readers |-> 0]
Go(t, p) == pc' = [pc EXCEPT ![t] = p]
(* ---- the reloading socket thread *)
WCopyLock == /\ pc[W] = "w_idle" /\ done < NReload /\ ~lockW /\ lockR' = lockR \cup {W} /\ Go(W, "w_copy")
             /\ UNCHANGED <<lockW, root4, root6, gen, fb, call, seen4, seen6, done>>
WCopy == /\ pc[W] = "w_copy" /\ lockR' = lockR \ {W} /\ Go(W, "w_build")            \* copy_except_socket: reads under the read lock
         /\ UNCHANGED <<lockW, root4, root6, gen, fb, call, seen4, seen6, done>>
WBuild == /\ pc[W] = "w_build" /\ Go(W, "w_swaplock")                               \* private memory: generation gen+1 is complete
          /\ UNCHANGED <<lockW, lockR, root4, root6, gen, fb, call, seen4, seen6, done>>
WSwapLock == /\ pc[W] = "w_swaplock" /\ ~lockW /\ lockR = {} /\ lockW' = TRUE /\ Go(W, "w_swap4")
             /\ UNCHANGED <<lockR, root4, root6, gen, fb, call, seen4, seen6, done>>
WSwap4 == /\ pc[W] = "w_swap4" /\ root4' = gen + 1 /\ Go(W, "w_swap6")
          /\ UNCHANGED <<lockW, lockR, root6, gen, fb, call, seen4, seen6, done>>
WSwap6 == /\ pc[W] = "w_swap6" /\ root6' = gen + 1 /\ gen' = gen + 1 /\ Go(W, "w_unlock")
          /\ UNCHANGED <<lockW, lockR, root4, fb, call, seen4, seen6, done>>
WUnlock == /\ pc[W] = "w_unlock" /\ lockW' = FALSE /\ Go(W, "w_diff")
           /\ UNCHANGED <<lockR, root4, root6, gen, fb, call, seen4, seen6, done>>
WDiff == /\ pc[W] = "w_diff" /\ Go(W, "w_free")                                     \* reads both generations, no lock on the old one needed
         /\ UNCHANGED <<lockW, lockR, root4, root6, gen, fb, call, seen4, seen6, done>>
WFree == /\ pc[W] = "w_free" /\ fb' = gen /\ done' = done + 1 /\ Go(W, "w_idle")
         /\ UNCHANGED <<lockW, lockR, root4, root6, gen, call, seen4, seen6>>
(* ---- readers of both families (for_each ipv4 + validate-like walk of ipv6 in one locked section) *)
RCall(t) == /\ pc[t] = "r_idle" /\ call' = [call EXCEPT ![t] = gen]
            /\ Go(t, IF PeekBeforeLock THEN "r_peek" ELSE "r_lock")
            /\ UNCHANGED <<lockW, lockR, root4, root6, gen, fb, seen4, seen6, done>>
RPeek(t) == /\ pc[t] = "r_peek" /\ seen4' = [seen4 EXCEPT ![t] = root4] /\ seen6' = [seen6 EXCEPT ![t] = root6] /\ Go(t, "r_lock")
            /\ UNCHANGED <<lockW, lockR, root4, root6, gen, fb, call, done>>
RLock(t) == /\ pc[t] = "r_lock" /\ ~lockW /\ lockR' = lockR \cup {t} /\ Go(t, IF PeekBeforeLock THEN "r_walk" ELSE "r_root")
            /\ UNCHANGED <<lockW, root4, root6, gen, fb, call, seen4, seen6, done>>
RRoot(t) == /\ pc[t] = "r_root" /\ seen4' = [seen4 EXCEPT ![t] = root4] /\ seen6' = [seen6 EXCEPT ![t] = root6] /\ Go(t, "r_walk")
            /\ UNCHANGED <<lockW, lockR, root4, root6, gen, fb, call, done>>
RWalk(t) == /\ pc[t] = "r_walk" /\ Go(t, "r_unlock")
            /\ UNCHANGED <<lockW, lockR, root4, root6, gen, fb, call, seen4, seen6, done>>
RUnlock(t) == /\ pc[t] = "r_unlock" /\ lockR' = lockR \ {t} /\ Go(t, "r_ret")
              /\ UNCHANGED <<lockW, root4, root6, gen, fb, call, seen4, seen6, done>>
RRet(t) == /\ pc[t] = "r_ret" /\ Go(t, "r_idle")
           /\ UNCHANGED <<lockW, lockR, root4, root6, gen, fb, call, seen4, seen6, done>>
Next == WCopyLock \/ WCopy \/ WBuild \/ WSwapLock \/ WSwap4 \/ WSwap6 \/ WUnlock \/ WDiff \/ WFree
        \/ \E t \in Readers : RCall(t) \/ RPeek(t) \/ RLock(t) \/ RRoot(t) \/ RWalk(t) \/ RUnlock(t) \/ RRet(t)
Spec == Init /\ [][Next]_vars
-----------------------------------------------------------------------------
TypeOK == lockW => lockR = {}
OneGeneration == \A t \in Readers : pc[t] \in {"r_walk", "r_unlock", "r_ret"} => seen4[t] = seen6[t]
NoUseAfterFree == \A t \in Readers : pc[t] = "r_walk" => (seen4[t] >= fb /\ seen6[t] >= fb)
Fresh == \A t \in Readers : pc[t] = "r_ret" => (seen4[t] >= call[t] /\ seen4[t] <= gen)
RootAccess(t) == CASE pc[t] \in {"w_swap4", "w_swap6"} -> [wr |-> TRUE, locked |-> TRUE]
                   [] pc[t] = "r_peek" -> [wr |-> FALSE, locked |-> FALSE]
                   [] pc[t] = "r_root" -> [wr |-> FALSE, locked |-> TRUE]
                   [] OTHER -> [wr |-> FALSE, locked |-> TRUE]
Touches(t) == pc[t] \in {"w_swap4", "w_swap6", "r_peek", "r_root"}
RaceFree == \A a, b \in Threads : (a # b /\ Touches(a) /\ Touches(b) /\ (RootAccess(a).wr \/ RootAccess(b).wr))
                                     => (RootAccess(a).locked /\ RootAccess(b).locked)
(* ---- inductive invariant (Apalache): holds for any number of reloads *)
WPcs == {"w_idle", "w_copy", "w_build", "w_swaplock", "w_swap4", "w_swap6", "w_unlock", "w_diff", "w_free"}
RPcs == {"r_idle", "r_peek", "r_lock", "r_root", "r_walk", "r_unlock", "r_ret"}
IndInv ==
  /\ pc \in [Threads -> WPcs \cup RPcs] /\ pc[W] \in WPcs /\ \A t \in Readers : pc[t] \in RPcs
  /\ lockW \in BOOLEAN /\ lockR \in SUBSET Threads /\ gen \in Nat /\ done \in Nat /\ root4 \in Nat /\ root6 \in Nat /\ fb \in Nat
  /\ call \in [Readers -> Nat] /\ seen4 \in [Readers -> Nat] /\ seen6 \in [Readers -> Nat]
  /\ lockW = (pc[W] \in {"w_swap4", "w_swap6", "w_unlock"})
  /\ (W \in lockR) = (pc[W] = "w_copy")
  /\ \A t \in Readers : (t \in lockR) = (pc[t] \in {"r_root", "r_walk", "r_unlock"})
  /\ lockW => lockR = {}
  /\ (~PeekBeforeLock) => \A t \in Readers : pc[t] # "r_peek"
  /\ root6 = gen
  /\ root4 = (IF pc[W] = "w_swap6" THEN gen + 1 ELSE gen)
  /\ fb <= gen /\ (pc[W] \in {"w_unlock", "w_diff", "w_free"} => (fb <= gen - 1 /\ gen >= 1))
  /\ \A t \in Readers : call[t] <= gen
  /\ \A t \in Readers : pc[t] \in {"r_walk", "r_unlock"} => (seen4[t] = gen /\ seen6[t] = gen)
  /\ \A t \in Readers : pc[t] = "r_ret" => (seen4[t] = seen6[t] /\ seen4[t] >= call[t] /\ seen4[t] <= gen)
Safe == OneGeneration /\ NoUseAfterFree /\ Fresh /\ RaceFree /\ TypeOK
InitInd == IndInv
=============================================================================
