\* the pinned commit (root read before the lock): expected to violate NoUseAfterFree / OneGeneration / RaceFree: 2 readers, 3 reloads, every interleaving
SPECIFICATION Spec
CONSTANTS
  Readers = {"r1", "r2"}
  NReload = 3
  PeekBeforeLock = TRUE
INVARIANTS TypeOK OneGeneration NoUseAfterFree Fresh RaceFree
