---------------------------- MODULE Rfc6811 ----------------------------
(* RFC 6811 route-origin validation over records whose prefixes are given as   *)
(* sequences of 16-bit words (TLC integers are 32-bit, an IPv6 address is not) *)
(*   record r = [f: family, w: <<words>>, l: length, m: max-length,            *)
(*               a: AS number as a string ("0" is AS 0), s: source name]       *)
(*   route  q = [f, w, l]                                                      *)
(* Host bits of a record prefix are zero by precondition; host bits of a       *)
(* queried route are ignored (only the first r.l bits are compared).           *)
EXTENDS Naturals, Sequences, FiniteSets

SamePrefix(a, b, L) ==
  LET full == L \div 16
      rem  == L % 16
  IN /\ \A i \in 1..full : a[i] = b[i]
     /\ (rem > 0) => ((a[full + 1] \div (2 ^ (16 - rem))) = (b[full + 1] \div (2 ^ (16 - rem))))

Covers(r, q)        == r.f = q.f /\ r.l <= q.l /\ SamePrefix(r.w, q.w, r.l)
Matches(r, q, asn)  == Covers(r, q) /\ r.a # "0" /\ r.a = asn /\ q.l <= r.m
Covering(recs, q)   == {r \in recs : Covers(r, q)}
Matching(recs, q, asn) == {r \in recs : Matches(r, q, asn)}
Validity(recs, q, asn) ==
  IF Matching(recs, q, asn) # {} THEN "valid"
  ELSE IF Covering(recs, q) # {} THEN "invalid" ELSE "notfound"

(* the reason clause of property C01, for a reason *sequence* why *)
SeqToSet(s) == {s[i] : i \in 1..Len(s)}
NoRepeat(s) == Cardinality(SeqToSet(s)) = Len(s)
ReasonOK(recs, q, asn, res, why) ==
  /\ NoRepeat(why)
  /\ (res = "notfound") => why = <<>>
  /\ (res = "invalid")  => SeqToSet(why) = Covering(recs, q)
  /\ (res = "valid")    => /\ SeqToSet(why) \subseteq Covering(recs, q)
                           /\ SeqToSet(why) \cap Matching(recs, q, asn) # {}
=============================================================================
