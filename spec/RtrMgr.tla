---------------------------- MODULE RtrMgr ----------------------------
(* The cache-group manager (rtr_mgr.c) as coded: groups identified by their preference   *)
(* value (smaller = more preferred), each with 1..2 sockets <<pref, index>>.             *)
(* State S (a record):  present (set of preferences), ns (sockets per group),            *)
(*   gst (group status), sst (socket state), upd (socket holds synchronised data, i.e.   *)
(*   last_update # 0), run (socket thread started), rep (status reports of this step).   *)
(* Step(S, ev) is the effect of one API call or one socket state change, following       *)
(* rtr_mgr_cb, rtr_mgr_close_less_preferable_groups, get_best_inactive_rtr_mgr_group,    *)
(* rtr_mgr_start_sockets and the state effects of rtr_start / rtr_stop.                  *)
EXTENDS Naturals, Sequences, FiniteSets, TLC, SequencesExt

CONSTANTS Prefs, MaxSock
AllSocks == Prefs \X (1..MaxSock)
ErrStates == {"ERR_FATAL", "ERR_TRANSPORT", "ERR_NODATA"}
SockStates == {"CLOSED", "CONNECTING", "ESTABLISHED", "RESET", "SYNC", "FAST_RECONNECT", "ERR_NODATA", "ERR_NOINCR",
               "ERR_FATAL", "ERR_TRANSPORT", "SHUTDOWN"}

Empty == [present |-> {}, ns |-> [p \in Prefs |-> 1], gst |-> [p \in Prefs |-> "CLOSED"],
          sst |-> [s \in AllSocks |-> "CLOSED"], upd |-> [s \in AllSocks |-> FALSE], run |-> [s \in AllSocks |-> FALSE],
          rep |-> <<>>, alive |-> FALSE]
Socks(S, g) == {<<g, i>> : i \in 1..S.ns[g]}
SockSeq(S, g) == [i \in 1..S.ns[g] |-> <<g, i>>]
Order(S) == SetToSortSeq(S.present, LAMBDA a, b : a < b)
Synced(S, g) == \A s \in Socks(S, g) : S.upd[s] /\ S.sst[s] \in {"ESTABLISHED", "RESET", "SYNC"}
SomeEst(S) == \E g \in S.present : S.gst[g] = "ESTABLISHED"
SetStatus(S, g, st) == [S EXCEPT !.gst[g] = st, !.rep = Append(@, <<g, st>>)]

(* _rtr_mgr_cb_state_shutdown *)
CbShutdown(S, g) == IF \A s \in Socks(S, g) : S.sst[s] = "SHUTDOWN" THEN SetStatus(S, g, "CLOSED") ELSE SetStatus(S, g, S.gst[g])
(* rtr_stop: state change to SHUTDOWN (with callback), then the thread is joined and the socket reset *)
StopSock(S, s) ==
  LET S1 == IF S.sst[s] = "SHUTDOWN" THEN S ELSE CbShutdown([S EXCEPT !.sst[s] = "SHUTDOWN"], s[1]) IN
  IF S1.run[s] THEN [S1 EXCEPT !.sst[s] = "CLOSED", !.upd[s] = FALSE, !.run[s] = FALSE] ELSE S1
RECURSIVE StopSeq(_, _, _)
StopSeq(S, q, i) == IF i > Len(q) THEN S ELSE StopSeq(StopSock(S, q[i]), q, i + 1)
(* rtr_mgr_close_less_preferable_groups: the list is walked in preference order *)
RECURSIVE CloseLess(_, _, _, _)
CloseLess(S, g, ord, k) ==
  IF k > Len(ord) THEN S
  ELSE LET h == ord[k] IN
       IF S.gst[h] # "CLOSED" /\ h # g /\ h > g
       THEN CloseLess(SetStatus(StopSeq(S, SockSeq(S, h), 1), h, "CLOSED"), g, ord, k + 1)
       ELSE CloseLess(S, g, ord, k + 1)
(* rtr_start / rtr_mgr_start_sockets *)
StartSock(S, s) == IF S.run[s] THEN S
                   ELSE IF S.sst[s] = "SHUTDOWN" THEN [S EXCEPT !.run[s] = TRUE]
                   ELSE [S EXCEPT !.run[s] = TRUE, !.sst[s] = "CONNECTING"]
RECURSIVE StartSeq(_, _, _)
StartSeq(S, q, i) == IF i > Len(q) THEN S ELSE StartSeq(StartSock(S, q[i]), q, i + 1)
StartGroup(S, g) == [StartSeq(S, SockSeq(S, g), 1) EXCEPT !.gst[g] = "CONNECTING"]     \* no report: the status is set directly
BestInactive(S, g) == LET cand == {h \in S.present : h # g /\ S.gst[h] = "CLOSED"} IN
                      IF cand = {} THEN 0 ELSE CHOOSE h \in cand : \A k \in cand : h <= k
Best(S) == CHOOSE h \in S.present : \A k \in S.present : h <= k

(* rtr_mgr_cb *)
CbEstablished(S, g) ==
  IF S.gst[g] = "CONNECTING"
  THEN (IF Synced(S, g) THEN CloseLess(SetStatus(S, g, "ESTABLISHED"), g, Order(S), 1) ELSE SetStatus(S, g, "CONNECTING"))
  ELSE IF S.gst[g] = "ERROR"
  THEN LET allErr == \A h \in S.present : (h # g /\ h < g) => S.gst[h] \in {"ERROR", "CLOSED"} IN
       IF allErr /\ Synced(S, g) THEN CloseLess(SetStatus(S, g, "ESTABLISHED"), g, Order(S), 1) ELSE SetStatus(S, g, "ERROR")
  ELSE S
CbConnecting(S, g) == IF S.gst[g] = "ERROR" THEN SetStatus(S, g, "ERROR") ELSE SetStatus(S, g, "CONNECTING")
CbError(S, g) == LET S1 == SetStatus(S, g, "ERROR") IN
                 IF SomeEst(S1) THEN S1
                 ELSE LET n == BestInactive(S1, g) IN IF n = 0 THEN S1 ELSE StartGroup(S1, n)
Cb(S, s, st) == LET g == s[1] IN
   IF st = "SHUTDOWN" THEN CbShutdown(S, g)
   ELSE IF st = "ESTABLISHED" THEN CbEstablished(S, g)
   ELSE IF st = "CONNECTING" THEN CbConnecting(S, g)
   ELSE IF st \in ErrStates THEN CbError(S, g)
   ELSE SetStatus(S, g, S.gst[g])

(* rtr_change_socket_state(s, st) as issued by the socket's own thread; sync = the socket has just completed a sync *)
SockEvent(S, s, st) ==
  IF S.sst[s] = st \/ S.sst[s] = "SHUTDOWN" THEN S
  ELSE Cb([S EXCEPT !.sst[s] = st, !.upd[s] = IF st = "ESTABLISHED" THEN TRUE ELSE @], s, st)
(* rtr_mgr_conf_in_sync: some group has every socket holding synchronised data *)
InSync(S) == \E g \in S.present : \A s \in Socks(S, g) : S.upd[s]
ExpireSock(S, s) == [S EXCEPT !.upd[s] = FALSE]

(* configuration API *)
ValidCfg(groups) == /\ Len(groups) > 0
                    /\ \A i \in 1..Len(groups) : groups[i].n >= 1
                    /\ \A i, j \in 1..Len(groups) : i # j => groups[i].pref # groups[j].pref
InitMgr(groups) == [Empty EXCEPT !.present = {groups[i].pref : i \in 1..Len(groups)},
                                 !.ns = [p \in Prefs |-> IF \E i \in 1..Len(groups) : groups[i].pref = p
                                                         THEN (CHOOSE i \in 1..Len(groups) : groups[i].pref = p) ELSE 1],
                                 !.alive = TRUE]
InitMgr2(groups) == LET S == InitMgr(groups) IN
                    [S EXCEPT !.ns = [p \in Prefs |-> IF p \in S.present THEN groups[S.ns[p]].n ELSE 1]]
StartMgr(S) == StartGroup(S, Best(S))
AddGroup(S, p, n) ==          \* rtr_mgr_add_group (p not in use)
  LET S1 == [S EXCEPT !.present = @ \cup {p}, !.ns[p] = n, !.gst[p] = "CLOSED",
                      !.sst[<<p, 1>>] = "CLOSED", !.sst[<<p, 2>>] = "CLOSED",     \* (EXCEPT, not a function constructor over S:
                      !.upd[<<p, 1>>] = FALSE, !.upd[<<p, 2>>] = FALSE,         \*  TLC evaluates those lazily)
                      !.run[<<p, 1>>] = FALSE, !.run[<<p, 2>>] = FALSE]
      b == Best(S1)
  IN IF S1.gst[b] = "CLOSED" THEN StartGroup(S1, b) ELSE S1
RemoveGroup(S, p) ==          \* rtr_mgr_remove_group (p present, not the last group)
  LET S0 == [S EXCEPT !.present = @ \ {p}]
      S1 == IF S.gst[p] # "CLOSED" THEN SetStatus(StopSeq(S0, SockSeq(S, p), 1), p, "CLOSED") ELSE S0
      b == Best(S1)
  IN IF S1.gst[b] = "CLOSED" THEN StartGroup(S1, b) ELSE S1

-----------------------------------------------------------------------------
(* Property C15 as predicates over one step S -> T *)
Becomes(S, T, g) == g \in T.present /\ T.gst[g] = "ESTABLISHED" /\ S.gst[g] # "ESTABLISHED"
P1_EstOnlyIfSynced(S, T) == \A g \in T.present : Becomes(S, T, g) => \A s \in Socks(T, g) : T.upd[s]
P2_LessPreferredClosed(S, T) == \A g \in T.present : Becomes(S, T, g) =>
                                  \A h \in T.present : h > g => (T.gst[h] = "CLOSED" /\ \A s \in Socks(T, h) : ~T.run[s])
P3_NeverStoppedForWorse(S, T, isRemove) ==
   \A h \in S.present : (\E s \in Socks(S, h) : S.run[s] /\ ~T.run[s]) =>
        (isRemove \/ \E g \in T.present : g < h /\ Becomes(S, T, g))
P4_FailoverStartsBest(S, T, g) ==      \* g entered ERROR in this step
   (~\E h \in T.present : T.gst[h] = "ESTABLISHED") =>
        LET cand == {h \in S.present : h # g /\ S.gst[h] = "CLOSED"} IN
        cand # {} => LET b == CHOOSE h \in cand : \A k \in cand : h <= k IN
                     T.gst[b] = "CONNECTING" /\ \A s \in Socks(T, b) : T.run[s]
I_ClosedMeansStopped(S) == \A g \in S.present : S.gst[g] = "CLOSED" => \A s \in Socks(S, g) : ~S.run[s]
I_AtMostOneEst(S) == Cardinality({g \in S.present : S.gst[g] = "ESTABLISHED"}) <= 1
=============================================================================
