SPECIFICATION TraceSpec
CONSTANTS
  Prefs = {0, 1, 2, 3, 4, 5, 6, 7, 8, 9}
  MaxSock = 2
INVARIANTS OK_C15
POSTCONDITION TraceAccepted
