---------------------------- MODULE RtrMgrTrace ----------------------------
(* Trace validation of the real rtr_mgr code (harness/mgr_harness.c): the state follows  *)
(* RtrMgr's prediction; what the implementation reported through its public interface    *)
(* (return codes, group statuses in rtr_mgr_for_each_group order, first group, running   *)
(* sockets, status callbacks) is compared by monitors, and the four clauses of C15 are   *)
(* evaluated on every step.                                                               *)
EXTENDS RtrMgr, Json, IOUtils
JTrace == ndJsonDeserialize(IOEnv.TRACE)
VARIABLES l, S, bad
tvars == <<l, S, bad>>
Chk(X) == {p[1] : p \in {x \in X : ~x[2]}}
Clr(T) == [T EXCEPT !.rep = <<>>]
SeqSet(s) == {s[i] : i \in 1..Len(s)}
ObsOK(T, e) ==       \* the observable state reported by the implementation equals the model's
  /\ e.gst = [k \in 1..Len(Order(T)) |-> <<Order(T)[k], T.gst[Order(T)[k]]>>]
  /\ (T.present # {} => e.first = Order(T)[1])
  /\ SeqSet(e.run) = {s \in AllSocks : s[1] \in T.present /\ s[2] <= T.ns[s[1]] /\ T.run[s]}
(* every report of ESTABLISHED (also a repeated one) concerns a group all of whose sockets hold synchronised data *)
(* (a repeated report issued while the group is being shut down in this very step is judged by the state before the step) *)
EstReportsOK(P, T, e) == \A k \in 1..Len(e.reports) : e.reports[k][2] = "ESTABLISHED" =>
                         LET g == e.reports[k][1] IN
                         \/ \A s \in Socks(T, g) : T.upd[s]
                         \/ (P.gst[g] = "ESTABLISHED" /\ \A s \in Socks(P, g) : P.upd[s])
Props(P, T, e) ==
  Chk({<<"C15", P1_EstOnlyIfSynced(P, T)>>, <<"C15", P2_LessPreferredClosed(P, T)>>,
       <<"C15", P3_NeverStoppedForWorse(P, T, e.e = "rm")>>,
       <<"C15", (e.e = "sock" /\ e.st \in ErrStates /\ P.sst[<<e.g, e.i>>] # e.st /\ P.sst[<<e.g, e.i>>] # "SHUTDOWN")
                   => P4_FailoverStartsBest(P, T, e.g)>>,
       <<"C15", ObsOK(T, e)>>, <<"C15", EstReportsOK(P, T, e)>>,
       <<"EXT", ("insync" \in DOMAIN e) => e.insync = InSync(T)>>})          \* beyond C15: rtr_mgr_conf_in_sync
Step(e) ==
  CASE e.e \in {"pre", "end"} -> [S |-> S, bad |-> {}]
    [] e.e = "init" ->
         LET ok == ValidCfg(e.groups) IN
         IF ok THEN LET T == InitMgr2(e.groups) IN [S |-> T, bad |-> Chk({<<"C15", e.rc = "ok">>, <<"C15", e.rc = "ok" => ObsOK(T, e)>>})]
         ELSE [S |-> Empty, bad |-> Chk({<<"C15", e.rc = "err">>, <<"C15", e.confnull>>})]
    [] e.e = "start" -> LET T == StartMgr(Clr(S)) IN [S |-> T, bad |-> Props(S, T, e)]
    [] e.e = "sock"  -> LET T == SockEvent(Clr(S), <<e.g, e.i>>, e.st) IN [S |-> T, bad |-> Props(S, T, e)]
    [] e.e = "expire" -> LET T == ExpireSock(Clr(S), <<e.g, e.i>>) IN [S |-> T, bad |-> Props(S, T, e)]
    [] e.e = "add" ->
         IF e.pref \in S.present THEN [S |-> S, bad |-> Chk({<<"C15", e.rc # "ok">>, <<"C15", ObsOK(S, e)>>})]
         ELSE LET T == AddGroup(Clr(S), e.pref, e.n) IN [S |-> T, bad |-> Props(S, T, e) \cup Chk({<<"C15", e.rc = "ok">>})]
    [] e.e = "rm" ->
         IF Cardinality(S.present) <= 1 \/ e.pref \notin S.present
         THEN [S |-> S, bad |-> Chk({<<"C15", e.rc # "ok">>, <<"C15", ObsOK(S, e)>>})]
         ELSE LET T == RemoveGroup(Clr(S), e.pref) IN [S |-> T, bad |-> Props(S, T, e) \cup Chk({<<"C15", e.rc = "ok">>})]
    [] OTHER -> [S |-> S, bad |-> {"C15"}]
TraceInit == l = 1 /\ S = Empty /\ bad = {}
TraceNext == /\ l <= Len(JTrace)
             /\ LET r == Step(JTrace[l]) IN S' = r.S /\ bad' = r.bad
             /\ l' = l + 1
TraceSpec == TraceInit /\ [][TraceNext]_tvars
OK_C15 == "C15" \notin bad
OK_EXT == "EXT" \notin bad          \* conformance beyond the listed properties (reported in the evidence, never a violation)
TraceAccepted == TLCGet("stats").diameter - 1 = Len(JTrace)
=============================================================================
