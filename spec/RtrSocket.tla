---------------------------- MODULE RtrSocket ----------------------------
(* Envelope specification of one rtrlib client socket (rtr.c + packets.c) at the      *)
(* granularity of its seams: every interaction with the transport (open, send, recv,  *)
(* close), the clock (sleep), the callbacks (state, prefix/key updates) and the       *)
(* start/stop API is one event record `e`, and Handle(c, e) gives the client state    *)
(* after the event together with the set of property monitors the event falsified.    *)
(* The same handlers serve the model-checking instance (MCRtrSocket: the environment  *)
(* chooses events from small alphabets) and trace validation (RtrSocketTrace: events  *)
(* are the lines logged by harness/fsm_harness.c from the real code).                 *)
(*                                                                                    *)
(* Client state c (a record):                                                         *)
(*   pc        where the client is in its protocol cycle                              *)
(*             "dead" "stopped" "connect" "query" "resp1" "resp" "est" "poll"         *)
(*             "reported" "errwait" "sleepretry" "nodata" "fastrc" "stopping"         *)
(*   ver firstPdu needSess sess serial iv mode      protocol bookkeeping              *)
(*   my oth    record tokens attributed to this socket / to other sources             *)
(*   buf       payload PDUs buffered until End of Data                                *)
(*   now lastOk   clock, time of the last exchange that ended with End of Data        *)
(*   ack       ghost: (session, serial) of the last completed exchange (C05)          *)
(*   owed      the Error Report the client owes the cache (C14), or None              *)
(*   alt       the other admissible outcome of a failed exchange (purge), C03         *)
(*   mirror    this socket's records rebuilt from update callbacks alone (C09)        *)
(* Named deviations of the code that are property-neutral are marked Dev_ in comments *)
(* and are part of the envelope; deviations that violate a property are only          *)
(* admitted through the KF set (known findings).                                      *)
EXTENDS Naturals, Sequences, FiniteSets, TLC

CONSTANT KF        \* set of names of known-finding deviations that are admitted

None == [none |-> TRUE]
ToSet(s) == {s[i] : i \in 1..Len(s)}
Chk(S) == {p[1] : p \in {x \in S : ~x[2]}}          \* S: set of <<property id, monitor value>>
Has(e, f) == f \in DOMAIN e

-----------------------------------------------------------------------------
(* PDU framing rules (RFC 8210 section 5, as far as the properties use them) *)
Natural(f) == CASE f.t \in {"serial_notify", "serial_query"} -> 12
                [] f.t \in {"reset_query", "cache_response", "cache_reset"} -> 8
                [] f.t = "ipv4" -> 20
                [] f.t = "ipv6" -> 32
                [] f.t = "router_key" -> 123
                [] f.t = "eod" -> (IF f.v = 0 THEN 12 ELSE IF f.v = 1 THEN 24 ELSE 0)
                [] OTHER -> 0                           \* reserved / unknown types are never well-formed
SizeOK(f) == IF f.t = "error"
             THEN /\ f.len.n >= 16 /\ Has(f, "enclen") /\ f.len.n >= 16 + f.enclen.n
                  /\ Has(f, "txtlen") /\ f.len.n = 16 + f.enclen.n + f.txtlen.n
             ELSE Natural(f) # 0 /\ f.len.n = Natural(f)
MaxPdu == 3248
NewVer(f, v, first) == IF f.len.n >= 8 /\ f.len.n <= MaxPdu /\ first /\ v = 1 /\ f.v = 0 /\ f.t # "error" THEN 0 ELSE v
Class(f, v, first) ==
  IF f.len.n < 8 THEN "short"
  ELSE IF f.len.n > MaxPdu THEN "big"
  ELSE IF f.v # NewVer(f, v, first) /\ f.t # "error" THEN "badver"    \* Dev_ErrorPduAnyVersion
  ELSE IF ~SizeOK(f) THEN "size" ELSE "ok"
Hdr(raw) == SubSeq(raw, 1, IF Len(raw) < 16 THEN Len(raw) ELSE 16)   \* 8 bytes = 16 hex digits
IsHexPrefix(enc, raw) == Len(enc) <= Len(raw) /\ SubSeq(raw, 1, Len(enc)) = enc

(* intervals: values are records [s: decimal string, n: value saturated at 2^30] *)
Ranges == [r |-> [lo |-> 1, hi |-> 86400], t |-> [lo |-> 1, hi |-> 7200], e |-> [lo |-> 600, hi |-> 172800]]
Mk(n) == [s |-> ToString(n), n |-> n]
InRange(x, R) == x.n >= R.lo /\ x.n <= R.hi
ApplyIv(m, cur, sent, R) ==
  IF m = "ignore_any" THEN cur
  ELSE IF m = "accept_any" \/ InRange(sent, R) THEN sent
  ELSE IF m = "min_max" THEN (IF sent.n < R.lo THEN Mk(R.lo) ELSE Mk(R.hi))
  ELSE cur                                                             \* ignore_on_failure
NewIv(m, cur, f) ==
  IF f.v = 1 /\ Has(f, "iv")
  THEN [r |-> ApplyIv(m, cur.r, f.iv.r, Ranges.r), t |-> ApplyIv(m, cur.t, f.iv.t, Ranges.t),
        e |-> ApplyIv(m, cur.e, f.iv.e, Ranges.e)]
  ELSE cur                                                             \* version 0 never changes timers
IvAllInRange(x) == InRange(x.r, Ranges.r) /\ InRange(x.t, Ranges.t) /\ InRange(x.e, Ranges.e)

(* applying a buffered response: the code applies IPv4, then IPv6, then router keys *)
Kind(rec) == SubSeq(rec, 1, 1)
Ordered(b) == SelectSeq(b, LAMBDA x : Kind(x.rec) = "4") \o SelectSeq(b, LAMBDA x : Kind(x.rec) = "6")
              \o SelectSeq(b, LAMBDA x : Kind(x.rec) = "k")
RECURSIVE ApplyFrom(_, _, _)
ApplyFrom(t, s, i) ==
  IF i > Len(s) THEN [ok |-> TRUE, t |-> t, i |-> i, why |-> "none"]
  ELSE LET o == s[i] IN
       IF o.flags = 1
       THEN (IF o.rec \in t THEN [ok |-> FALSE, t |-> t, i |-> i, why |-> "dup"] ELSE ApplyFrom(t \cup {o.rec}, s, i + 1))
       ELSE IF o.flags = 0
       THEN (IF o.rec \notin t THEN [ok |-> FALSE, t |-> t, i |-> i, why |-> "unknown"] ELSE ApplyFrom(t \ {o.rec}, s, i + 1))
       ELSE [ok |-> FALSE, t |-> t, i |-> i, why |-> "flags"]

-----------------------------------------------------------------------------
DefaultIv == [r |-> Mk(3600), t |-> Mk(600), e |-> Mk(7200)]
BlankAlt == [my |-> {}, needSess |-> TRUE, sess |-> 0, serial |-> "0", ack |-> None, lastOk |-> 0, iv |-> DefaultIv]
Blank == [pc |-> "dead", ver |-> 1, firstPdu |-> TRUE, needSess |-> TRUE, sess |-> 0, serial |-> "0",
          iv |-> DefaultIv, mode |-> "min_max", my |-> {}, oth |-> {}, buf |-> <<>>, now |-> 0, lastOk |-> 0,
          ack |-> None, owed |-> None, alt |-> None, mayDown |-> FALSE, mirror |-> {}, expired |-> FALSE,
          goodSince |-> 0, target |-> {}, converged |-> FALSE, lastq |-> None, kf |-> {}, fast |-> FALSE, back |-> "resp1",
          afSeen |-> FALSE, afalts |-> {}, snap |-> BlankAlt,
          synced |-> FALSE]      \* (recorded executions only) some exchange has completed since the socket was started
Res(c, b) == [c |-> c, bad |-> b]

Expired(c, t) == c.lastOk # 0 /\ t - c.lastOk > c.iv.e.n
Purge(c) == [c EXCEPT !.my = {}, !.needSess = TRUE, !.serial = "0", !.lastOk = 0, !.ack = None, !.expired = TRUE]
PurgeIfExpired(c, t) == IF Expired(c, t) THEN Purge(c) ELSE c
WaitTimeout(c, t) == IF c.lastOk + c.iv.r.n > t THEN c.lastOk + c.iv.r.n - t ELSE 0
(* all transport receive calls made for one header (or one body) share one deadline: timeout + time of the call is constant *)
CallsOK(cs) == \A i, j \in 1..Len(cs) :
                 ((cs[i].off < 8) = (cs[j].off < 8) /\ cs[i].to < 1073741824 /\ cs[j].to < 1073741824)
                   => cs[i].to + cs[i].now = cs[j].to + cs[j].now
WaitOK(c, to) == IF c.iv.r.n >= 1073741824 THEN to >= 536870912 ELSE to = WaitTimeout(c, c.now)   \* saturated values
ObsPoint(e) == Has(e, "my") /\ (e.e \in {"open", "stop", "sleep"} \/ (e.e = "send" /\ e.t \in {"reset_query", "serial_query"}))

(* a failed exchange has two admissible outcomes (C03): untouched (kept in c) or purged (kept in alt); *)
(* the next observation of the table, or the type of the next query, tells which one the client took    *)
Resolve(c, e) ==
  IF c.alt = None \/ ~ObsPoint(e) THEN c
  ELSE IF ToSet(e.my) # c.my /\ ToSet(e.my) = c.alt.my
       THEN [c EXCEPT !.my = c.alt.my, !.needSess = TRUE, !.ack = None, !.alt = None]
  ELSE IF ToSet(e.my) # c.alt.my THEN [c EXCEPT !.alt = None]
  ELSE IF e.e = "send" /\ e.t = "reset_query" /\ ~c.needSess
       THEN [c EXCEPT !.needSess = TRUE, !.ack = None, !.alt = None]
  ELSE IF e.e = "send" THEN [c EXCEPT !.alt = None] ELSE c

(* ----- allocation failure (C18): once the harness has failed one allocation of the library (events carry af), the     *)
(* exchange in progress may end in one of three ways whatever the envelope predicts: as predicted, with the state from  *)
(* before the exchange (snap, taken at every query), or with the socket's records purged and a reset due.  The next      *)
(* query, together with the table contents observed with it, tells which; anything else is a violation.                 *)
AltOf(c) == [my |-> c.my, needSess |-> c.needSess, sess |-> c.sess, serial |-> c.serial, ack |-> c.ack, lastOk |-> c.lastOk, iv |-> c.iv]
PurgedAlt(c) == [my |-> {}, needSess |-> TRUE, sess |-> c.sess, serial |-> "0", ack |-> None, lastOk |-> 0, iv |-> c.iv]
AfEnter(c, e) == IF Has(e, "af") /\ ~c.afSeen /\ c.pc \notin {"dead", "stopped"}
                 THEN [c EXCEPT !.afSeen = TRUE, !.afalts = {c.snap, PurgedAlt(c)}] ELSE c
AfMatch(a, e) == /\ ToSet(e.my) = a.my
                 /\ IF a.needSess THEN e.t = "reset_query" ELSE (e.t = "serial_query" /\ e.sess = a.sess /\ e.sn = a.serial)
AfResolve(c, e) ==
  IF c.afalts = {} THEN [c |-> c, bad |-> {}]
  ELSE LET m == {a \in c.afalts \cup {AltOf(c)} : AfMatch(a, e)}
       IN IF m = {} THEN [c |-> [c EXCEPT !.afalts = {}], bad |-> {"C18"}]
          ELSE LET a == IF AltOf(c) \in m THEN AltOf(c) ELSE IF c.snap \in m THEN c.snap ELSE CHOOSE x \in m : TRUE
               IN [c |-> [c EXCEPT !.my = a.my, !.needSess = a.needSess, !.sess = a.sess, !.serial = a.serial, !.ack = a.ack,
                                   !.lastOk = a.lastOk, !.iv = a.iv, !.afalts = {}, !.alt = None], bad |-> {}]
AfOpen(c, e) ==
  IF c.afalts = {} THEN [c |-> c, bad |-> {}]
  ELSE LET ex(a) == IF a.lastOk # 0 /\ e.now - a.lastOk > a.iv.e.n THEN [a EXCEPT !.my = {}, !.needSess = TRUE, !.serial = "0", !.ack = None, !.lastOk = 0] ELSE a
           alts == {ex(a) : a \in c.afalts}
       IN [c |-> [c EXCEPT !.afalts = alts],
           bad |-> IF Has(e, "my") /\ ToSet(e.my) \notin {a.my : a \in alts \cup {ex(AltOf(c))}} THEN {"C18"} ELSE {}]

Owe(codes, raw) == [codes |-> codes, raw |-> raw]
Fail(c, codes, raw) == [c EXCEPT !.owed = Owe(codes, raw), !.pc = "reported", !.buf = <<>>,
                                 !.back = IF c.pc \in {"est", "poll"} THEN "est" ELSE "resp1"]
Converge(c) == [c EXCEPT !.converged = c.converged \/ (c.goodSince # 0 /\ c.pc = "est" /\ c.my = c.target)]

-----------------------------------------------------------------------------
(* ----- handlers: one per kind of seam event *)

HInit(c, e) ==
  LET ok == e.rc = "ok"
      c1 == [Blank EXCEPT !.pc = IF ok THEN "stopped" ELSE "dead", !.iv = IF ok THEN e.cfg ELSE DefaultIv,
                          !.mode = e.mode, !.oth = IF Has(e, "oth") THEN ToSet(e.oth) ELSE {}, !.now = e.now, !.kf = c.kf]
  IN Res(c1, Chk({<<"C17", ok = IvAllInRange(e.cfg)>>, <<"C17", ok => (Has(e, "iv") /\ e.iv = e.cfg)>>}))

HStart(c, e) == Res([c EXCEPT !.pc = "connect", !.now = e.now], Chk({<<"ENV", c.pc = "stopped">>}))

HOpen(c0, e) ==
  LET c  == Resolve(c0, e)
      ex == Expired(c, e.now)
      c1 == PurgeIfExpired([c EXCEPT !.expired = FALSE], e.now)
      okpc == c.pc = "connect" \/ (c.pc = "sleepretry" /\ c.mayDown)
      c2 == [c1 EXCEPT !.pc = IF e.rc = "ok" THEN "query" ELSE "errwait", !.firstPdu = TRUE, !.buf = <<>>,
                       !.now = e.now, !.owed = None, !.fast = FALSE]
  IN Res(c2, Chk({<<"C08", okpc>>,
                  <<IF ex THEN "C07" ELSE "C03", Has(e, "my") => ToSet(e.my) = c2.my>>,
                  <<IF ex THEN "C07" ELSE "C03", Has(e, "oth") => ToSet(e.oth) = c.oth>>,
                  <<"C14", c.owed = None>>}))

ExpectedQuery(c) == IF c.needSess THEN [t |-> "reset_query", v |-> c.ver]
                    ELSE [t |-> "serial_query", v |-> c.ver, sess |-> c.sess, sn |-> c.serial]
HSend(c0, e) ==
  IF c0.pc = "stopping" THEN Res(c0, {})          \* the user is stopping the socket while the client finishes a step
  ELSE IF e.t \in {"reset_query", "serial_query"}
  THEN LET c == Resolve(c0, e)
           q == ExpectedQuery(c)
           down == c.mayDown /\ c.ver > 0 /\ e.v = c.ver - 1
           c1 == [c EXCEPT !.pc = "resp1", !.now = e.now, !.ver = IF down THEN e.v ELSE c.ver, !.mayDown = FALSE,
                           !.lastq = q, !.owed = None, !.expired = FALSE,
                           !.snap = IF Has(e, "my") THEN AltOf(c) ELSE c.snap]    \* recorded executions only (the model checker's events carry no observations)
       IN Res(c1, Chk({<<"ENV", c.pc \in {"query", "poll"}>>,
                       <<"C05", e.t = q.t>>,
                       <<"C05", (e.t = "serial_query" /\ q.t = "serial_query") => (e.sess = q.sess /\ e.sn = q.sn)>>,
                       <<"C07", c.expired => e.t = "reset_query">>,
                       <<"C13", e.v = c.ver \/ down>>,
                       <<"C14", e.len = (IF e.t = "reset_query" THEN 8 ELSE 12)>>,
                       <<"C14", Has(e, "calls") => CallsOK(e.calls)>>,        \* TrAll!OneDeadline for the pieces of one PDU
                       <<"C14", c.owed = None>>,
                       <<"C03", Has(e, "my") => ToSet(e.my) = c.my>>,
                       <<"C03", Has(e, "oth") => ToSet(e.oth) = c.oth>>}))
  ELSE IF e.t = "error"
  THEN Res([c0 EXCEPT !.owed = None, !.now = e.now],
           Chk({<<"C14", c0.owed # None>>,
                <<"C14", c0.owed # None => e.code \in c0.owed.codes>>,
                <<"C14", c0.owed # None => IsHexPrefix(e.enc, c0.owed.raw)>>,
                <<"C14", e.lenok /\ e.len <= MaxPdu>>,
                <<"C13", e.v = c0.ver>>}))
  ELSE Res(c0, {"C14"})                                  \* the client never sends any other PDU type

HSendFail(c, e) ==
  Res([c EXCEPT !.pc = "errwait", !.now = e.now, !.owed = None],
      Chk({<<"ENV", c.pc \in {"query", "poll", "reported"}>>, <<"C14", Has(e, "calls") => CallsOK(e.calls)>>}))

HandleErrPdu(c, f) ==
  IF f.code = 2 THEN [c EXCEPT !.needSess = TRUE, !.serial = "0", !.ack = None, !.pc = "nodata", !.buf = <<>>]
  ELSE IF f.code = 4 /\ f.v < c.ver THEN [c EXCEPT !.ver = f.v, !.pc = "fastrc", !.buf = <<>>, !.fast = TRUE]   \* downgrade, reconnect at once
  ELSE [c EXCEPT !.pc = "errwait", !.buf = <<>>]

HEod(c, f, t) ==
  IF f.sess # c.sess THEN Fail(c, {0}, f.raw)
  ELSE LET c1 == [c EXCEPT !.iv = NewIv(c.mode, c.iv, f)]
           base == IF c.needSess THEN {} ELSE c.my
           ob == Ordered(c.buf)
           a == ApplyFrom(base, ob, 1)
       IN IF a.ok
          THEN Converge([c1 EXCEPT !.my = a.t, !.serial = f.sn, !.needSess = FALSE, !.lastOk = t,
                                    !.ack = [s |-> c.sess, n |-> f.sn], !.pc = "est", !.buf = <<>>, !.alt = None])
          ELSE [Fail(c1, IF a.why = "dup" THEN {7} ELSE IF a.why = "unknown" THEN {6} ELSE {0}, ob[a.i].raw)
                  EXCEPT !.alt = [my |-> {}]]

HRecv(cin, e) ==
  LET c == IF cin.pc = "reported" /\ cin.owed = None THEN [cin EXCEPT !.pc = cin.back] ELSE cin   \* Dev_KeepReadingAfterReport
      f == e.f
      cls == Class(f, c.ver, c.firstPdu)
      c0 == [c EXCEPT !.now = e.now, !.ver = NewVer(f, c.ver, c.firstPdu),
                      !.firstPdu = IF cls \in {"short", "big"} THEN c.firstPdu ELSE FALSE]
      envbad == Chk({<<"ENV", c.pc \in {"resp1", "resp", "est"}>>, <<"C14", c.owed = None>>,
                     <<"C17", (c.pc = "est" /\ Has(e, "to")) => WaitOK(c, e.to)>>,
                     <<"C17", Has(e, "calls") => CallsOK(e.calls)>>})
  IN IF cls # "ok" /\ f.t = "error"
     THEN Res([Fail(c0, {0}, f.raw) EXCEPT !.owed = None], envbad)                 \* a malformed Error Report is never answered
     ELSE IF cls \in {"short", "big"} THEN Res(Fail(c0, {0}, Hdr(f.raw)), envbad)      \* Dev_TooBigReportedAsCorruptData
     ELSE IF cls = "badver" THEN Res(Fail(c0, {8}, Hdr(f.raw)), envbad)
     ELSE IF cls = "size"
     THEN Res(Fail(c0, IF f.t \in {"unknown", "reserved5"} THEN {0, 5} ELSE {0}, f.raw), envbad)
     ELSE IF c.pc = "est"
     THEN Res(IF f.t = "serial_notify" THEN [c0 EXCEPT !.pc = "poll"] ELSE c0, envbad)      \* Dev_IgnoreOtherPdusWhileEstablished
     ELSE IF f.t = "serial_notify" THEN Res(c0, envbad)
     ELSE IF f.t = "error" THEN Res(HandleErrPdu(c0, f), envbad)
     ELSE IF c.pc = "resp1"
     THEN (IF f.t = "cache_reset"
           THEN Res(PurgeIfExpired([c0 EXCEPT !.needSess = TRUE, !.serial = "0", !.ack = None, !.pc = "query"], e.now), envbad)
           ELSE IF f.t = "cache_response"
           THEN (IF c.needSess THEN Res([c0 EXCEPT !.sess = f.sess, !.pc = "resp", !.buf = <<>>], envbad)
                 ELSE IF f.sess = c.sess THEN Res([c0 EXCEPT !.pc = "resp", !.buf = <<>>], envbad)
                 ELSE IF "F2" \in KF
                      THEN Res([c0 EXCEPT !.pc = "resp", !.buf = <<>>, !.kf = @ \cup {"C05:foreign-session-cache-response-applied"}], envbad)
                      ELSE Res(Fail(c0, {0}, f.raw), envbad))
           ELSE Res(Fail(c0, {0}, f.raw), envbad))                                  \* unexpected first PDU
     ELSE IF f.t \in {"ipv4", "ipv6", "router_key"}
     THEN Res([c0 EXCEPT !.buf = Append(c.buf, [rec |-> f.rec, flags |-> f.flags, raw |-> f.raw])], envbad)
     ELSE IF f.t = "eod" THEN Res(HEod(c0, f, e.now), envbad)
     ELSE Res(Fail(c0, {0}, f.raw), envbad)                                         \* unexpected PDU inside a response

HRFault(cin, e) ==
  LET c == IF cin.pc = "reported" /\ cin.owed = None THEN [cin EXCEPT !.pc = cin.back] ELSE cin   \* Dev_KeepReadingAfterReport
      k == e.kind
      t2 == e.now + e.adv
      hdrSeen == Has(e, "f") /\ Has(e, "off") /\ e.off >= 8          \* the fault hit the body: the header had been accepted
      c0 == [c EXCEPT !.now = t2, !.owed = None,
                      !.ver = IF hdrSeen THEN NewVer(e.f, c.ver, c.firstPdu) ELSE c.ver,
                      !.firstPdu = IF hdrSeen THEN FALSE ELSE c.firstPdu]
      envbad == Chk({<<"ENV", c.pc \in {"resp1", "resp", "est", "reported"}>>,
                     <<"C14", c.owed = None>>,
                     <<"C17", (c.pc = "est" /\ e.at = "hdr" /\ ~Has(e, "off")) => WaitOK(c, e.to)>>,
                     <<"C17", Has(e, "calls") => CallsOK(e.calls)>>})
  IN IF k = "intr"
     THEN Res(IF c.pc = "resp" THEN [c0 EXCEPT !.pc = "resp1", !.buf = <<>>] ELSE c0, envbad)   \* Dev_InterruptedReceiveRestartsSync
     ELSE IF k = "timeout" /\ c.pc = "est" THEN Res([c0 EXCEPT !.pc = "poll"], envbad)
     ELSE IF k = "closed" /\ c.pc = "resp1" /\ c.needSess /\ c.ver > 0 /\ c.firstPdu
     THEN (IF "F4" \in KF
           THEN Res([c0 EXCEPT !.pc = "errwait", !.buf = <<>>, !.kf = @ \cup {"C13:no-downgrade-on-hangup"}], envbad)
           ELSE Res([c0 EXCEPT !.ver = c.ver - 1, !.pc = "fastrc", !.buf = <<>>, !.fast = TRUE], envbad))
     ELSE IF k = "closed" /\ c.pc \in {"resp1", "reported"} /\ c.needSess /\ c.ver > 0
     THEN Res([c0 EXCEPT !.pc = "errwait", !.buf = <<>>, !.mayDown = TRUE], envbad)
     ELSE Res([c0 EXCEPT !.pc = "errwait", !.buf = <<>>], envbad)

HSleep(c0, e) ==
  LET c == Resolve(c0, e)
      parkedNow == Has(e, "parked")
      t2 == e.now + e.adv
      c1 == IF parkedNow THEN [c EXCEPT !.now = t2]
            ELSE IF c.pc = "nodata" THEN PurgeIfExpired([c EXCEPT !.pc = "query", !.now = t2], t2)
            ELSE [c EXCEPT !.pc = "connect", !.now = t2]
  IN Res([c1 EXCEPT !.owed = None],
         Chk({<<IF c.pc = "connect" /\ c.fast THEN "C13" ELSE "C08", c.pc \in {"sleepretry", "nodata"}>>, <<"C08", c.mode # "accept_any" => e.sec >= 1>>, <<"C08", e.sec = c.iv.t.n>>,
              <<"C14", c.owed = None>>,
              <<"C03", Has(e, "my") => ToSet(e.my) = c.my>>, <<"C03", Has(e, "oth") => ToSet(e.oth) = c.oth>>}))

HClose(c, e) ==
  LET p == IF c.pc \in {"errwait", "reported"} THEN "sleepretry" ELSE IF c.pc = "fastrc" THEN "connect" ELSE c.pc
  IN Res([c EXCEPT !.pc = p, !.now = e.now, !.owed = None, !.buf = <<>>],
         Chk({<<"ENV", c.pc \in {"errwait", "reported", "fastrc", "stopping", "stopped"}>>, <<"C14", c.owed = None>>}))

HState(c, e) ==
  IF e.s = "RTR_SHUTDOWN" THEN Res([c EXCEPT !.pc = "stopping", !.owed = None, !.alt = None], {})
  ELSE IF e.s = "RTR_FAST_RECONNECT" /\ c.mayDown /\ c.pc # "fastrc" /\ c.ver > 0     \* the ambiguous hang-up: the client chose to downgrade
  THEN Res([c EXCEPT !.ver = c.ver - 1, !.mayDown = FALSE, !.pc = "fastrc", !.fast = TRUE], {})
  ELSE Res(c, Chk({<<"C08", e.s = "RTR_ESTABLISHED" => c.pc = "est">>,
                   <<"C13", e.s = "RTR_FAST_RECONNECT" => (c.pc = "fastrc" \/ c.mayDown)>>}))

HCb(c, e) ==
  Res([c EXCEPT !.mirror = IF e.add THEN @ \cup {e.r} ELSE @ \ {e.r}],
      Chk({<<"C09", e.add => e.r \notin c.mirror>>, <<"C09", ~e.add => e.r \in c.mirror>>, <<"C03", e.src = "me">>}))

HStop(c, e) ==
  Res([c EXCEPT !.pc = "stopped", !.my = {}, !.needSess = TRUE, !.serial = "0", !.lastOk = 0, !.ack = None,
                !.buf = <<>>, !.owed = None, !.alt = None, !.now = e.now, !.mayDown = FALSE, !.expired = FALSE],
      Chk({<<"C07", Has(e, "my") => e.my = <<>>>>, <<"C07", Has(e, "oth") => ToSet(e.oth) = c.oth>>,
           <<"C08", c.goodSince # 0 => c.converged>>,
           (* what the group manager (RtrMgr.tla, and the stubs of harness/mgr_harness.c) assumes of a stopped socket: *)
           (* state RTR_CLOSED (so that it can be started again), bookkeeping reset                                     *)
           <<"STUB", Has(e, "dbg") => (e.dbg.st = 10 /\ e.dbg.rs = 1 /\ e.dbg.sn = "0" /\ e.dbg.lu = 0)>>}))

HMark(c, e) == Res([c EXCEPT !.goodSince = e.now, !.target = ToSet(e.cdata), !.converged = FALSE], {})
HTick(c, e) == Res(c, {})      \* the clock moved inside a blocking call; c.now stays the time at which that call was made

Handle(c, e) ==
  CASE (c.pc = "stopping" /\ e.e \in {"open", "send", "sendfail", "sendbad", "recv", "rfault", "sleep", "tick"})
                     -> Res(c, {})          \* rtr_stop() is in progress: the client merely finishes the step it was in
    [] e.e = "init"  -> HInit(c, e)
    [] e.e = "start" -> HStart(c, e)
    [] e.e = "open"  -> HOpen(c, e)
    [] e.e = "send"  -> HSend(c, e)
    [] e.e = "sendfail" -> HSendFail(c, e)
    [] e.e = "sendbad"  -> Res(c, {"C14"})
    [] e.e = "recv"  -> HRecv(c, e)
    [] e.e = "rfault" -> HRFault(c, e)
    [] e.e = "sleep" -> HSleep(c, e)
    [] e.e = "close" -> HClose(c, e)
    [] e.e = "state" -> HState(c, e)
    [] e.e \in {"pfxcb", "spkicb"} -> HCb(c, e)
    [] e.e = "stop"  -> HStop(c, e)
    [] e.e = "mark"  -> HMark(c, e)
    [] e.e = "tick"  -> HTick(c, e)
    [] e.e \in {"rpark", "cbpark"} -> Res(c, {})
    [] e.e = "hang"  -> Res(c, {"C08", "C04"})
    [] e.e = "reset" -> Res([Blank EXCEPT !.kf = c.kf], {})
    [] OTHER -> Res(c, {"ENV"})

Cap(n) == IF n > 16777216 THEN 16777216 ELSE n      \* keeps the bound inside TLC's 32-bit integers
(* monitors that apply to every event that carries the corresponding observation *)
Common(c, c2, e) ==
  Chk({<<"OTH", (Has(e, "oth") /\ c2.pc # "dead" /\ e.e # "init") => ToSet(e.oth) = c2.oth>>,
       <<"C09", (Has(e, "my") /\ c2.pc # "stopping") => c2.mirror = ToSet(e.my)>>,
       <<"C17", (Has(e, "iv") /\ e.e # "init") => e.iv = c.iv>>,      \* what the socket held when the event was logged
       <<"C17", (c2.mode # "accept_any" /\ c2.pc # "dead") => IvAllInRange(c2.iv)>>,
       <<"C08", (c2.goodSince # 0 /\ ~c2.converged) =>
                  c2.now - c2.goodSince <= Cap(c2.iv.r.n) + Cap(c2.iv.e.n) + 4 * Cap(c2.iv.t.n) + 240>>,
       <<"C13", c2.ver <= 1>>,
       (* the manager reads last_update # 0 as "this socket holds synchronised data": true only after a completed exchange *)
       <<"STUB", (Has(e, "dbg") /\ e.dbg.lu # 0 /\ c2.pc \notin {"dead", "stopping"}) => (c.synced \/ c2.synced)>>})
StepResult(c, e) ==
  LET c0 == AfEnter(c, e)
      pre == IF c0.afalts = {} THEN [c |-> c0, bad |-> {}]
             ELSE IF e.e = "send" /\ e.t \in {"reset_query", "serial_query"} /\ c0.pc # "stopping" THEN AfResolve(c0, e)
             ELSE IF e.e = "open" THEN AfOpen(c0, e)
             ELSE IF e.e \in {"stop", "reset"} THEN [c |-> [c0 EXCEPT !.afalts = {}], bad |-> {}]
             ELSE [c |-> c0, bad |-> {}]
      r0 == Handle(pre.c, e)
      (* the ghost behind the STUB monitor is kept for recorded executions only (events with diagnostics), so the model *)
      (* checker's state space is unaffected; an expiry purge does not reset it (the implication is one-directional)     *)
      r == IF ~Has(e, "dbg") THEN r0
           ELSE [r0 EXCEPT !.c.synced = IF e.e \in {"stop", "init", "reset"} THEN FALSE
                                        ELSE (pre.c.synced \/ (pre.c.pc = "resp" /\ r0.c.pc = "est"))]
  IN [c |-> r.c, bad |-> pre.bad \cup r.bad \cup Common(c, r.c, e)]
=============================================================================
