SPECIFICATION TraceSpec
CONSTANTS
  KF = {}
INVARIANTS OK_ALL
POSTCONDITION TraceAccepted
