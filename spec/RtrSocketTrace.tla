---------------------------- MODULE RtrSocketTrace ----------------------------
(* Trace validation of the real rtr_socket state machine: every line of the ndjson  *)
(* file named by environment variable TRACE is one seam event logged by             *)
(* harness/fsm_harness.c; the client state always follows the specification's own   *)
(* prediction, and what the implementation was observed to do is compared by the    *)
(* monitors of RtrSocket!Handle, collected per property in `bad`.                   *)
EXTENDS RtrSocket, Json, IOUtils
JTrace == ndJsonDeserialize(IOEnv.TRACE)
VARIABLES l, c, bad
tvars == <<l, c, bad>>
TraceInit == l = 1 /\ c = Blank /\ bad = {}
TraceNext == /\ l <= Len(JTrace)
             /\ LET r == StepResult(c, JTrace[l]) IN c' = r.c /\ bad' = r.bad
             /\ l' = l + 1
TraceSpec == TraceInit /\ [][TraceNext]_tvars
OK_C03 == "C03" \notin bad
OK_C04 == bad \cap {"C04", "C03", "C09", "ENV"} = {}      \* no hang, tables change only as the envelope predicts
OK_C05 == "C05" \notin bad
OK_C07 == "C07" \notin bad
OK_C08 == "C08" \notin bad /\ "ENV" \notin bad
OK_C09 == "C09" \notin bad
OK_C13 == "C13" \notin bad
OK_C14 == "C14" \notin bad
OK_C17 == "C17" \notin bad
OK_C18 == bad \cap {"C04", "C09", "OTH", "C18"} = {}      \* containment under allocation failure: no hang, callbacks consistent, others
                                                           \* untouched, and the exchange ends as predicted, as before it, or purged with a reset due
OK_STUB == "STUB" \notin bad      \* the socket layer keeps the promises the manager model relies on (checked by C15)
OK_ALL == bad = {}
KfReport == (l = Len(JTrace) + 1 /\ c.kf # {}) => PrintT(<<"KF-USED", c.kf>>)
TraceAccepted == TLCGet("stats").diameter - 1 = Len(JTrace)
=============================================================================
