---------------------------- MODULE SpkiTable ----------------------------
(* Contract of rtrlib's router-key table (spki_table functions): an exact set of   *)
(* entries [a: AS, k: SKI, p: SPKI, s: source] (all opaque strings), two lookups,  *)
(* and the same copy / swap / notify-diff reload protocol as the prefix table.     *)
(* cbs = bag of callbacks emitted by the last operation, mirror = contents rebuilt *)
(* from callbacks alone.                                                           *)
EXTENDS Naturals, Sequences, FiniteSets, TLC

CONSTANTS Key, Srcs, NT
VARIABLES keys, hascb, alive, mirror, pending, rc, cbs, ph, rs
vars == <<keys, hascb, alive, mirror, pending, rc, cbs, ph, rs>>
T == 1..NT

ApplyCbs(m, C) == [t \in T |-> (m[t] \cup {c.r : c \in {x \in C : x.t = t /\ x.add}})
                                  \ {c.r : c \in {x \in C : x.t = t /\ ~x.add}}]
Notes(t, add, S) == IF hascb[t] THEN {[t |-> t, add |-> add, r |-> r] : r \in S} ELSE {}

GetAll(t, a, k)  == {e \in keys[t] : e.a = a /\ e.k = k}
BySki(t, k)      == {e \in keys[t] : e.k = k}

Init == /\ keys = [t \in T |-> {}] /\ hascb = [t \in T |-> t = 1] /\ alive = [t \in T |-> t = 1]
        /\ mirror = [t \in T |-> {}] /\ pending = FALSE /\ rc = "ok" /\ cbs = {}
        /\ ph = "idle" /\ rs = CHOOSE s \in Srcs : TRUE

InitTable(t, cb) == /\ ~alive[t]
                    /\ alive' = [alive EXCEPT ![t] = TRUE] /\ hascb' = [hascb EXCEPT ![t] = cb]
                    /\ keys' = [keys EXCEPT ![t] = {}] /\ mirror' = [mirror EXCEPT ![t] = {}]
                    /\ rc' = "ok" /\ cbs' = {} /\ UNCHANGED pending
Add(t, e) == /\ alive[t]
             /\ IF e \in keys[t]
                THEN rc' = "dup" /\ cbs' = {} /\ UNCHANGED <<keys, mirror>>
                ELSE /\ rc' = "ok" /\ keys' = [keys EXCEPT ![t] = @ \cup {e}]
                     /\ cbs' = Notes(t, TRUE, {e}) /\ mirror' = ApplyCbs(mirror, cbs')
             /\ UNCHANGED <<hascb, alive, pending>>
Remove(t, e) == /\ alive[t]
                /\ IF e \notin keys[t]
                   THEN rc' = "nf" /\ cbs' = {} /\ UNCHANGED <<keys, mirror>>
                   ELSE /\ rc' = "ok" /\ keys' = [keys EXCEPT ![t] = @ \ {e}]
                        /\ cbs' = Notes(t, FALSE, {e}) /\ mirror' = ApplyCbs(mirror, cbs')
                /\ UNCHANGED <<hascb, alive, pending>>
OpFails(t) == /\ alive[t] /\ rc' = "err" /\ cbs' = {} /\ UNCHANGED <<keys, hascb, alive, mirror, pending>>
SrcRemove(t, s) == /\ alive[t] /\ rc' = "ok"
                   /\ LET gone == {e \in keys[t] : e.s = s} IN
                      /\ keys' = [keys EXCEPT ![t] = @ \ gone]
                      /\ cbs' = Notes(t, FALSE, gone) /\ mirror' = ApplyCbs(mirror, cbs')
                   /\ UNCHANGED <<hascb, alive, pending>>
(* spki_table_free releases the entries; it is not an operation the property asks notifications for *)
Free(t) == /\ alive[t] /\ rc' = "ok" /\ cbs' = {}
           /\ keys' = [keys EXCEPT ![t] = {}] /\ alive' = [alive EXCEPT ![t] = FALSE]
           /\ mirror' = [mirror EXCEPT ![t] = {}] /\ UNCHANGED <<hascb, pending>>
CopyExcept(a, b, s) == /\ a # b /\ alive[a] /\ alive[b] /\ rc' = "ok"
                       /\ LET new == {e \in keys[a] : e.s # s} \ keys[b] IN
                          /\ keys' = [keys EXCEPT ![b] = @ \cup new]
                          /\ cbs' = Notes(b, TRUE, new) /\ mirror' = ApplyCbs(mirror, cbs')
                       /\ UNCHANGED <<hascb, alive, pending>>
Swap(a, b) == /\ a # b /\ alive[a] /\ alive[b] /\ rc' = "ok" /\ cbs' = {}
              /\ keys' = [keys EXCEPT ![a] = keys[b], ![b] = keys[a]]
              /\ pending' = TRUE /\ UNCHANGED <<hascb, alive, mirror>>
NotifyDiff(n, o, s) ==
  /\ n # o /\ alive[n] /\ alive[o] /\ rc' = "ok"
  /\ LET old1  == keys[o] \ {e \in keys[n] : e.s = s}
         added == {e \in keys[n] : e.s = s /\ e \notin keys[o]}
         removed == {e \in old1 : e.s = s}
     IN /\ keys' = [keys EXCEPT ![o] = old1]
        /\ cbs' = Notes(n, TRUE, added) \cup Notes(n, FALSE, removed)
        /\ mirror' = ApplyCbs(mirror, cbs')
  /\ pending' = FALSE /\ UNCHANGED <<hascb, alive>>

Idle ==
  /\ ph = "idle" /\ UNCHANGED <<ph, rs>>
  /\ \/ \E e \in Key : Add(1, e) \/ Remove(1, e)
     \/ \E s \in Srcs : SrcRemove(1, s)
     \/ OpFails(1)
BeginReload(s) == /\ ph = "idle" /\ InitTable(2, FALSE) /\ ph' = "init" /\ rs' = s
CopyOthers     == /\ ph = "init" /\ CopyExcept(1, 2, rs) /\ ph' = "shadow" /\ UNCHANGED rs
ShadowApply    == /\ ph = "shadow" /\ UNCHANGED <<ph, rs>>
                  /\ \E e \in {x \in Key : x.s = rs} : Add(2, e) \/ Remove(2, e)
Abort          == /\ ph \in {"init", "shadow"} /\ Free(2) /\ ph' = "idle" /\ UNCHANGED rs
SwapIn         == /\ ph = "shadow" /\ Swap(1, 2) /\ ph' = "swapped" /\ UNCHANGED rs
Diff           == /\ ph = "swapped" /\ NotifyDiff(1, 2, rs) /\ ph' = "diffed" /\ UNCHANGED rs
Finish         == /\ ph = "diffed" /\ Free(2) /\ ph' = "idle" /\ UNCHANGED rs
Next == Idle \/ (\E s \in Srcs : BeginReload(s)) \/ CopyOthers \/ ShadowApply \/ Abort \/ SwapIn \/ Diff \/ Finish
Spec == Init /\ [][Next]_vars

MirrorOK == ~pending => \A t \in T : (alive[t] /\ hascb[t]) => mirror[t] = keys[t]
LookupsPartition == \A t \in T : \A e \in keys[t] : e \in GetAll(t, e.a, e.k) /\ GetAll(t, e.a, e.k) \subseteq BySki(t, e.k)
ReloadAtomic == [][(ph = "shadow" /\ ph' = "swapped") =>
                     /\ {e \in keys'[1] : e.s # rs} = {e \in keys[1] : e.s # rs}
                     /\ {e \in keys'[1] : e.s = rs} = {e \in keys[2] : e.s = rs}]_vars
=============================================================================
