SPECIFICATION TraceSpec
CONSTANTS
  Key <- TraceKey
  Srcs <- TraceSrcs
  NT = 2
  KF_SrcRmSilent = FALSE
INVARIANTS OK_C10 OK_C18
POSTCONDITION TraceAccepted
