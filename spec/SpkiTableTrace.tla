---------------------------- MODULE SpkiTableTrace ----------------------------
(* Trace validation for the router-key table (see PfxTableTrace for the scheme). *)
EXTENDS SpkiTable, Json, IOUtils

CONSTANT KF_SrcRmSilent   \* known finding switch: spki_table_src_remove emits no notifications
JTrace == ndJsonDeserialize(IOEnv.TRACE)
VARIABLES l, bad, kf
tvars == <<vars, l, bad, kf>>
Ev == JTrace[l]
Is(e) == l <= Len(JTrace) /\ JTrace[l].e = e /\ l' = l + 1
Has(f) == f \in DOMAIN Ev
AF == Has("af") /\ Ev.af
Fails(S) == {p[1] : p \in {x \in S : ~x[2]}}
SeqToSet(s) == {s[i] : i \in 1..Len(s)}
NoRepeat(s) == Cardinality(SeqToSet(s)) = Len(s)
CbSeq  == IF Has("cb") THEN Ev.cb ELSE <<>>
CbSet  == {[t |-> CbSeq[i].t, add |-> CbSeq[i].add, r |-> CbSeq[i].r] : i \in 1..Len(CbSeq)}
CbExact(expected) == Cardinality(CbSet) = Len(CbSeq) /\ CbSet = expected

TInit == /\ Is("init") /\ InitTable(Ev.t, Ev.cbk) /\ bad' = {} /\ UNCHANGED <<ph, rs, kf>>
TAdd  == /\ Is("add") /\ ~AF /\ Add(Ev.t, Ev.r)
         /\ bad' = Fails({<<"C10", rc' = Ev.rc>>, <<"C10", CbExact(cbs')>>}) /\ UNCHANGED <<ph, rs, kf>>
TRm   == /\ Is("rm") /\ ~AF /\ Remove(Ev.t, Ev.r)
         /\ bad' = Fails({<<"C10", rc' = Ev.rc>>, <<"C10", CbExact(cbs')>>}) /\ UNCHANGED <<ph, rs, kf>>
TSrcRm == /\ Is("srcrm") /\ SrcRemove(Ev.t, Ev.s)
          /\ IF KF_SrcRmSilent /\ cbs' # {} /\ CbSeq = <<>>
             THEN /\ kf' = kf \cup {"C10:src-remove-without-notification"}
                  /\ bad' = Fails({<<"C10", rc' = Ev.rc>>})
             ELSE /\ kf' = kf /\ bad' = Fails({<<"C10", rc' = Ev.rc>>, <<"C10", CbExact(cbs')>>})
          /\ UNCHANGED <<ph, rs>>
TFailedOp == /\ l <= Len(JTrace) /\ Ev.e \in {"add", "rm"} /\ AF /\ l' = l + 1
             /\ \/ /\ Ev.rc = "err" /\ OpFails(Ev.t) /\ bad' = Fails({<<"C18", CbExact({})>>})
                \/ /\ Ev.rc # "err" /\ (IF Ev.e = "add" THEN Add(Ev.t, Ev.r) ELSE Remove(Ev.t, Ev.r))
                   /\ bad' = Fails({<<"C18", rc' = Ev.rc>>, <<"C18", CbExact(cbs')>>})
             /\ UNCHANGED <<ph, rs, kf>>
TFree == /\ Is("free") /\ Free(Ev.t) /\ bad' = {} /\ UNCHANGED <<ph, rs, kf>>
TCopy == /\ Is("copyx") /\ CopyExcept(Ev.src, Ev.dst, Ev.s)
         /\ bad' = Fails({<<"C10", rc' = Ev.rc>>, <<"C10", CbExact(cbs')>>}) /\ UNCHANGED <<ph, rs, kf>>
TSwap == /\ Is("swap") /\ Swap(Ev.a, Ev.b) /\ bad' = Fails({<<"C10", CbExact(cbs')>>}) /\ UNCHANGED <<ph, rs, kf>>
TDiff == /\ Is("diff") /\ NotifyDiff(Ev.new, Ev.old, Ev.s)
         /\ bad' = Fails({<<"C10", CbExact(cbs')>>}) /\ UNCHANGED <<ph, rs, kf>>
TLookupFailed == /\ l <= Len(JTrace) /\ Ev.e \in {"get", "ski"} /\ AF /\ Ev.rc = "err" /\ l' = l + 1
                 /\ bad' = {} /\ UNCHANGED <<vars, kf>>
TGet  == /\ Is("get") /\ alive[Ev.t] /\ ~(AF /\ Ev.rc = "err")
         /\ bad' = Fails({<<"C10", Ev.rc = "ok">>, <<"C10", NoRepeat(Ev.res)>>,
                          <<"C10", SeqToSet(Ev.res) = GetAll(Ev.t, Ev.a, Ev.k)>>})
         /\ UNCHANGED <<vars, kf>>
TSki  == /\ Is("ski") /\ alive[Ev.t] /\ ~(AF /\ Ev.rc = "err")
         /\ bad' = Fails({<<"C10", Ev.rc = "ok">>, <<"C10", NoRepeat(Ev.res)>>,
                          <<"C10", SeqToSet(Ev.res) = BySki(Ev.t, Ev.k)>>})
         /\ UNCHANGED <<vars, kf>>
TReset == /\ Is("reset") /\ bad' = {} /\ UNCHANGED kf
          /\ keys' = [t \in T |-> {}] /\ hascb' = [t \in T |-> FALSE] /\ alive' = [t \in T |-> FALSE]
          /\ mirror' = [t \in T |-> {}] /\ pending' = FALSE /\ rc' = "ok" /\ cbs' = {} /\ UNCHANGED <<ph, rs>>
TraceInit == /\ keys = [t \in T |-> {}] /\ hascb = [t \in T |-> FALSE] /\ alive = [t \in T |-> FALSE]
             /\ mirror = [t \in T |-> {}] /\ pending = FALSE /\ rc = "ok" /\ cbs = {}
             /\ ph = "idle" /\ rs = "A" /\ l = 1 /\ bad = {} /\ kf = {}
TraceNext == TInit \/ TAdd \/ TRm \/ TSrcRm \/ TFailedOp \/ TFree \/ TCopy \/ TSwap \/ TDiff \/ TGet \/ TSki \/ TLookupFailed \/ TReset
TraceSpec == TraceInit /\ [][TraceNext]_tvars

OK_C10 == "C10" \notin bad /\ (KF_SrcRmSilent \/ MirrorOK)
OK_C18 == "C18" \notin bad
KfReport == (l = Len(JTrace) + 1 /\ kf # {}) => PrintT(<<"KF-USED", kf>>)
TraceAccepted == TLCGet("stats").diameter - 1 = Len(JTrace)
TraceKey == {}
TraceSrcs == {"A", "B", "C"}
=============================================================================
