\* the intended protocol: 2 readers, 3 mutations, every interleaving
SPECIFICATION Spec
CONSTANTS
  Readers = {"r1", "r2"}
  NW = 3
  PeekBeforeLock = FALSE
INVARIANTS TypeOK RaceFree Linearizable NoTornRead
