---------------------------- MODULE TableConc ----------------------------
(* Lock protocol of the tables (C16, C06) at the granularity of lock calls and of the   *)
(* memory accesses made between them.  One writer thread performs NW mutations (each:   *)
(* take the write lock, write the root pointer, write the body, unlock); a reloader     *)
(* variant swaps in a complete new version under the write lock.  Readers validate      *)
(* (lock, read root, read body, unlock) or enumerate; the enumeration of rtrlib peeks   *)
(* at the root pointer BEFORE taking the lock when PeekBeforeLock is TRUE (as coded in  *)
(* pfx_table_for_each_ipv4_record / _ipv6_record at the pinned commit).                 *)
(*   ver        number of completed mutations (the linearisation order of the writer)   *)
(*   Linearizable: a read returns the contents of some version between its call and     *)
(*   its return;  RaceFree: no two threads are poised at conflicting accesses to the    *)
(*   same location (root or body) without a common lock.                                *)
EXTENDS Naturals, FiniteSets, TLC
CONSTANTS Readers, NW, PeekBeforeLock
VARIABLES pc, lockW, lockR, ver, root, body, call, seen, wdone
vars == <<pc, lockW, lockR, ver, root, body, call, seen, wdone>>
W == "w"
Threads == Readers \cup {W}
Init == /\ pc = [t \in Threads |-> IF t = W THEN "w_idle" ELSE "r_idle"]
        /\ lockW = FALSE /\ lockR = {} /\ ver = 0 /\ root = 0 /\ body = 0
        /\ call = [t \in Readers |-> 0] /\ seen = [t \in Readers |-> 0] /\ wdone = 0
(* ---- writer: pthread_rwlock_wrlock ... unlock *)
WLock == /\ pc[W] = "w_idle" /\ wdone < NW /\ ~lockW /\ lockR = {} /\ lockW' = TRUE
         /\ pc' = [pc EXCEPT ![W] = "w_root"] /\ UNCHANGED <<lockR, ver, root, body, call, seen, wdone>>
WRoot == /\ pc[W] = "w_root" /\ root' = ver + 1 /\ pc' = [pc EXCEPT ![W] = "w_body"]
         /\ UNCHANGED <<lockW, lockR, ver, body, call, seen, wdone>>
WBody == /\ pc[W] = "w_body" /\ body' = ver + 1 /\ ver' = ver + 1 /\ pc' = [pc EXCEPT ![W] = "w_unlock"]
         /\ UNCHANGED <<lockW, lockR, root, call, seen, wdone>>
WUnlock == /\ pc[W] = "w_unlock" /\ lockW' = FALSE /\ wdone' = wdone + 1 /\ pc' = [pc EXCEPT ![W] = "w_idle"]
           /\ UNCHANGED <<lockR, ver, root, body, call, seen>>
(* ---- reader *)
RCall(t) == /\ pc[t] = "r_idle" /\ call' = [call EXCEPT ![t] = ver]
            /\ pc' = [pc EXCEPT ![t] = IF PeekBeforeLock THEN "r_peek" ELSE "r_lock"]
            /\ UNCHANGED <<lockW, lockR, ver, root, body, seen, wdone>>
RPeek(t) == /\ pc[t] = "r_peek" /\ pc' = [pc EXCEPT ![t] = "r_lock"]          \* unlocked read of the root pointer
            /\ UNCHANGED <<lockW, lockR, ver, root, body, call, seen, wdone>>
RLock(t) == /\ pc[t] = "r_lock" /\ ~lockW /\ lockR' = lockR \cup {t} /\ pc' = [pc EXCEPT ![t] = "r_root"]
            /\ UNCHANGED <<lockW, ver, root, body, call, seen, wdone>>
RRoot(t) == /\ pc[t] = "r_root" /\ seen' = [seen EXCEPT ![t] = root] /\ pc' = [pc EXCEPT ![t] = "r_body"]
            /\ UNCHANGED <<lockW, lockR, ver, root, body, call, wdone>>
RBody(t) == /\ pc[t] = "r_body" /\ pc' = [pc EXCEPT ![t] = "r_unlock"]
            /\ UNCHANGED <<lockW, lockR, ver, root, body, call, seen, wdone>>
RUnlock(t) == /\ pc[t] = "r_unlock" /\ lockR' = lockR \ {t} /\ pc' = [pc EXCEPT ![t] = "r_ret"]
              /\ UNCHANGED <<lockW, ver, root, body, call, seen, wdone>>
RRet(t) == /\ pc[t] = "r_ret" /\ pc' = [pc EXCEPT ![t] = "r_idle"]
           /\ UNCHANGED <<lockW, lockR, ver, root, body, call, seen, wdone>>
Next == WLock \/ WRoot \/ WBody \/ WUnlock
        \/ \E t \in Readers : RCall(t) \/ RPeek(t) \/ RLock(t) \/ RRoot(t) \/ RBody(t) \/ RUnlock(t) \/ RRet(t)
Spec == Init /\ [][Next]_vars
-----------------------------------------------------------------------------
TypeOK == lockW => lockR = {}
(* what a thread is about to access, and which lock it holds while doing so *)
Access(t) == CASE pc[t] = "w_root" -> [loc |-> "root", wr |-> TRUE, locked |-> TRUE]
               [] pc[t] = "w_body" -> [loc |-> "body", wr |-> TRUE, locked |-> TRUE]
               [] pc[t] = "r_peek" -> [loc |-> "root", wr |-> FALSE, locked |-> FALSE]
               [] pc[t] = "r_root" -> [loc |-> "root", wr |-> FALSE, locked |-> TRUE]
               [] pc[t] = "r_body" -> [loc |-> "body", wr |-> FALSE, locked |-> TRUE]
               [] OTHER -> [loc |-> "none", wr |-> FALSE, locked |-> TRUE]
RaceFree == \A a, b \in Threads : (a # b /\ Access(a).loc # "none" /\ Access(a).loc = Access(b).loc /\ (Access(a).wr \/ Access(b).wr))
                                     => (Access(a).locked /\ Access(b).locked)
Linearizable == \A t \in Readers : pc[t] = "r_ret" => (seen[t] >= call[t] /\ seen[t] <= ver)
NoTornRead == \A t \in Readers : pc[t] = "r_body" => seen[t] = body       \* root and body belong to the same version
=============================================================================
