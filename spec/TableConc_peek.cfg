\* as coded at the pinned commit (enumeration peeks at the root before locking): RaceFree is expected to FAIL: 2 readers, 3 mutations, every interleaving
SPECIFICATION Spec
CONSTANTS
  Readers = {"r1", "r2"}
  NW = 3
  PeekBeforeLock = TRUE
INVARIANTS TypeOK RaceFree Linearizable NoTornRead
