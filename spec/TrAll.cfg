SPECIFICATION Spec
CONSTANTS
  MaxLen = 5
  MaxTimeout = 4
INVARIANTS AllOrError OneDeadline InTime
