------------------------------- MODULE TrAll -------------------------------
(* tr_send_all / tr_recv_all (rtrlib/transport/transport.c): move exactly len octets through a transport whose   *)
(* send / receive function may move fewer, within one deadline fixed at entry.                                    *)
(*     end_time = now + timeout;  while (total < len) { rt = fp(buf + total, len - total, end_time - now);        *)
(*                                                      if (rt < 0) return rt;  total += rt; }  return total;      *)
(* The transport is honest: a call handed timeout t takes at most max(t, 0) time, moves between 1 and the number  *)
(* of octets asked for, or reports an error / that it would block (after exactly max(t, 0) time).                  *)
(*   AllOrError     the function returns len (everything moved) or a negative code - never a short count, so a     *)
(*                  caller that treats "positive" as "PDU sent" never leaves a truncated PDU behind as sent (C14);  *)
(*   OneDeadline    every call of the transport function is handed end_time - now: the timeouts of the calls of    *)
(*                  one invocation, plus the times they were made at, are constant (C17: the poll deadline does     *)
(*                  not slide with short reads) - this is what the CallsOK monitor of RtrSocket.tla checks on the   *)
(*                  timeouts the real client hands to the harness's transport;                                      *)
(*   InTime         the invocation is over no later than its deadline (when the timeout was positive).             *)
EXTENDS Integers, Sequences, TLC
CONSTANTS MaxLen, MaxTimeout
VARIABLES len, timeout, start, now, total, pc, ret, calls
vars == <<len, timeout, start, now, total, pc, ret, calls>>
Max(a, b) == IF a >= b THEN a ELSE b
Init == /\ len \in 1..MaxLen /\ timeout \in 0..MaxTimeout /\ start = 0 /\ now = 0 /\ total = 0 /\ pc = "loop" /\ ret = 0 /\ calls = <<>>
EndTime == start + timeout
(* one iteration: the transport function is called with end_time - now *)
Call == /\ pc = "loop" /\ total < len
        /\ LET to == EndTime - now
               budget == Max(to, 0)
           IN /\ calls' = Append(calls, [now |-> now, to |-> to])
              /\ \/ \E k \in 1..(len - total), d \in 0..budget :            \* k octets moved after d time units
                      /\ to > 0                                             \* (a transport asked to wait no time moves nothing)
                      /\ now' = now + d /\ total' = total + k /\ pc' = (IF total + k = len THEN "done" ELSE "loop")
                      /\ ret' = (IF total + k = len THEN len ELSE 0)
                 \/ /\ now' = now + budget /\ pc' = "done" /\ ret' = -2 /\ UNCHANGED total      \* would block: the deadline has passed
                 \/ \E d \in 0..budget : now' = now + d /\ pc' = "done" /\ ret' = -1 /\ UNCHANGED total   \* transport error
        /\ UNCHANGED <<len, timeout, start>>
Next == Call \/ (pc = "done" /\ UNCHANGED vars)
Spec == Init /\ [][Next]_vars
AllOrError == pc = "done" => (ret = len /\ total = len) \/ (ret < 0)
OneDeadline == \A i, j \in 1..Len(calls) : calls[i].to + calls[i].now = calls[j].to + calls[j].now
InTime == pc = "done" => now <= start + timeout
=============================================================================
