#!/usr/bin/env python3
"""eval_all.py [-j N] [name ...] -- re-evaluates the archived seeded changes (seeded/<name>/) with tools/eval_seed.sh and
rewrites their meta.json (confirmation facts + which quick checks detect them).  Without names: all of them."""
import json, os, subprocess, sys
from concurrent.futures import ThreadPoolExecutor
V = "/verif"
args = sys.argv[1:]
j = 4
if args[:1] == ["-j"]:
    j = int(args[1]); args = args[2:]
names = args or sorted(os.listdir(os.path.join(V, "seeded")))


def one(name):
    d = os.path.join(V, "seeded", name)
    meta = json.load(open(os.path.join(d, "meta.json")))
    checks = list(meta["checks_quick"].keys())
    subprocess.run([os.path.join(V, "tools", "eval_seed.sh"), d, name] + checks, stdout=subprocess.DEVNULL, stderr=subprocess.DEVNULL)
    rf = os.path.join(V, "build", "seedeval", name + ".txt")
    if not os.path.exists(rf):   # patch no longer applies to /repo HEAD (a later fix: commit rewrote its context): keep the old record
        return name, dict(meta.get("confirmed", {}), patch_applies="NO (HEAD moved on)"), meta["checks_quick"]
    res = open(rf).read().splitlines()
    meta["checks_quick"] = {l.split()[0][6:]: ("detected" if "rc=1" in l else "missed" if "rc=0" in l else "error") for l in res if l.startswith("check_")}
    meta["confirmed"] = {l.split("=")[0]: l.split("=", 1)[1] for l in res if "=" in l and not l.startswith("check_")}
    json.dump(meta, open(os.path.join(d, "meta.json"), "w"), indent=1)
    return name, meta["confirmed"], meta["checks_quick"]


with ThreadPoolExecutor(j) as ex:
    for name, conf, checks in ex.map(one, names):
        okc = conf.get("demo_clean_rc") == "0" and conf.get("demo_mut_rc") not in ("0", None) and conf.get("builds") == "yes"
        print(name, "confirmed" if okc else "NOT-CONFIRMED %s" % conf, checks, flush=True)
