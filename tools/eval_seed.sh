#!/bin/bash
# eval_seed.sh <seed-dir> <name> [check ids...]
#   seed-dir holds patch.diff + demo.sh (+ demo sources).  Confirms, in scratch copies of /repo HEAD:
#   demo passes on clean, patch applies, the baseline suite still passes with it, demo fails with it;
#   then runs the given checks (quick tier) against the patched copy.  Scratch is removed at the end.
set -u
SD=$(readlink -f "$1"); NAME=$2; shift 2
W=/tmp/ev/$NAME; rm -rf $W; mkdir -p $W/clean $W/mut
git -C /repo archive HEAD | tar -x -C $W/clean
git -C /repo archive HEAD | tar -x -C $W/mut
# generated headers (gitignored in /repo, produced by cmake's configure step)
for d in clean mut; do for h in config.h rtrlib.h; do [ -f $W/$d/rtrlib/$h ] || cp /repo/rtrlib/$h $W/$d/rtrlib/$h; done; done
R=$W/result.txt; : > $R
( cd $W/mut && git init -q . && git apply $SD/patch.diff ) >>$W/log 2>&1 && echo "patch_applies=yes" >>$R || { echo "patch_applies=NO" >>$R; cat $R; exit 1; }
( cd $W && timeout 600 bash $SD/demo.sh $W/clean >$W/demo_clean.log 2>&1 ); echo "demo_clean_rc=$?" >>$R
( cd $W && timeout 600 bash $SD/demo.sh $W/mut >$W/demo_mut.log 2>&1 ); echo "demo_mut_rc=$?" >>$R
( cmake -G Ninja -S $W/mut -B $W/b -DUNIT_TESTING=ON -DCMAKE_BUILD_TYPE=RelWithDebInfo -DCMAKE_C_FLAGS=-Wno-error >$W/cmake.log 2>&1 && cmake --build $W/b >>$W/cmake.log 2>&1 ) && echo "builds=yes" >>$R || echo "builds=NO" >>$R
ctest --test-dir $W/b -j8 --timeout 300 >$W/ctest.log 2>&1
echo "ctest_failed=$(grep -c '(Failed)\|\*\*\*' $W/ctest.log) [$(grep -o '[a-z_]* (Failed)' $W/ctest.log | tr '\n' ' ')]" >>$R
rm -rf $W/b
for c in "$@"; do
  ( cd /verif && VERIF_BUILD_TAG=ev-$NAME VERIF_EVIDENCE_DIR=$W/evidence VERIF_REPO=$W/mut timeout 3000 bin/check $c --tier quick >$W/check_$c.log 2>&1 ); rc=$?
  echo "check_$c rc=$rc $(grep -m1 -A1 '^VIOLATION' $W/check_$c.log | tr '\n' ' ' | cut -c1-300)" >>$R
done
cat $R
mkdir -p /verif/build/seedeval && cp $R /verif/build/seedeval/$NAME.txt
rm -rf $W/clean $W/mut /verif/build/ev-$NAME /verif/replays/ev-$NAME
