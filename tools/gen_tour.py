#!/usr/bin/env python3
"""Regenerates spec/tour/MCRtrSocketCover.json.gz (transition tour of the RTR socket model) after a change to
RtrSocket.tla / MCRtrSocket.tla / MCRtrSocketCover.tla|cfg.  Takes about five minutes."""
import os, sys
sys.path.insert(0, os.path.join(os.path.dirname(os.path.abspath(__file__)), "..", "lib"))
sys.path.insert(0, os.path.join(os.path.dirname(os.path.abspath(__file__)), "..", "lib", "checks"))
import vlib, fsm
dest = os.path.join(vlib.SPEC, "tour", "MCRtrSocketCover.json.gz")
vlib.mkdir(os.path.dirname(dest))
d = fsm.tour_generate("gen-tour", dest)
print("classes printed:", len(d["items"]), "digest:", d["digest"], "->", dest)
