#!/usr/bin/env python3
"""keep_seed.py <seed-dir> <name> <property> <needs-text>  -- archive a confirmed seeded change under seeded/<name>/"""
import json, os, shutil, sys
sd, name, prop, needs = sys.argv[1:5]
dst = os.path.join("/verif/seeded", name)
if os.path.isdir(dst):
    shutil.rmtree(dst)
shutil.copytree(sd, dst)
res = open("/verif/build/seedeval/%s.txt" % name).read().splitlines()
checks = {l.split()[0][6:]: ("detected" if "rc=1" in l else "missed" if "rc=0" in l else "error") for l in res if l.startswith("check_")}
meta = {"property": prop, "needs_to_manifest": needs, "origin": "independent sub-agent given only the property text and a scratch worktree",
        "confirmed": {l.split("=")[0]: l.split("=", 1)[1] for l in res if "=" in l and not l.startswith("check_")},
        "ran": "tools/eval_seed.sh (scratch copy of /repo HEAD: demo on clean tree, git apply, cmake -DUNIT_TESTING=ON build + ctest, demo on patched tree, then bin/check <id> --tier quick with VERIF_REPO=<patched copy>)",
        "checks_quick": checks}
json.dump(meta, open(os.path.join(dst, "meta.json"), "w"), indent=1)
print(name, checks)
